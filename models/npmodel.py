"""Pure-Python model of the part of numpy that ampycloud uses, over lists of concrete or
symbolic scalars (symex.core values). Documented numpy semantics only; anything else raises
ShimGap. Functions are defined as f_<name> and exported under numpy's names by install(),
so that no numpy name ever shadows a builtin inside this module.
"""
import math, builtins, types, sys
import z3
from symex import core
from symex.core import (SymBool, SymInt, SymFloat, SymFP, SymFPInt, ShimGap, ite, is_sym,
                        concretize_int, sbool)

nan = float('nan')
inf = float('inf')
_isnan = core.isnan


class _Gap(types.ModuleType):
    def __getattr__(self, n):
        if n.startswith('__'):
            raise AttributeError(n)
        raise ShimGap('numpy.' + n)


def _is_series(x):
    return getattr(x, '_is_series', False)


def _scal(x):
    return not isinstance(x, (ndarray, list, tuple)) and not _is_series(x) and not getattr(x, '_is_frame', False)


def _tolist(x):
    if isinstance(x, ndarray):
        return x.tolist()
    if _is_series(x):
        return list(x.v)
    if isinstance(x, (list, tuple)):
        return [(_tolist(i) if isinstance(i, (list, tuple, ndarray)) else i) for i in x]
    return x


def _flat(a):
    if isinstance(a, ndarray):
        return a.d
    if _is_series(a):
        return list(a.v)
    if getattr(a, '_is_index', False):
        return list(a.l)
    if isinstance(a, (list, tuple)):
        out = []
        for x in a:
            if isinstance(x, (list, tuple, ndarray)):
                out.extend(_flat(x))
            else:
                out.append(x)
        return out
    return [a]


def _isboolish(b):
    return isinstance(b, (bool, SymBool))


def operator_index(i):
    if isinstance(i, SymInt):
        return concretize_int(i)
    if isinstance(i, bool):
        return int(i)
    if isinstance(i, int):
        return i
    if isinstance(i, float):
        raise IndexError('only integers, slices (`:`), ellipsis (`...`), numpy.newaxis (`None`) and '
                         'integer or boolean arrays are valid indices')
    raise ShimGap('index of type %r' % (type(i),))


def _and(a, b):
    if isinstance(a, SymBool) or isinstance(b, SymBool):
        return sbool(SymBool(z3.And(core.B(_b(a)), core.B(_b(b)))))
    return bool(a) and bool(b)


def _or(a, b):
    if isinstance(a, SymBool) or isinstance(b, SymBool):
        return sbool(SymBool(z3.Or(core.B(_b(a)), core.B(_b(b)))))
    return bool(a) or bool(b)


def _b(x):
    return x if isinstance(x, SymBool) else bool(x)


def _not(a):
    return sbool(~a) if isinstance(a, SymBool) else (not a)


def _mul(a, b):
    if _isboolish(a) and _isboolish(b):
        return _and(a, b)
    return a * b


def _div(a, b):
    if not is_sym(a) and not is_sym(b):
        if isinstance(b, (int, float)) and b == 0:
            a = float(a)
            if a != a or a == 0:
                return nan
            return inf if a > 0 else -inf
        return a / b
    return a / b


def _same(a, b):
    """Equality with NaN == NaN (np.unique, duplicated)."""
    na, nb = _isnan(a), _isnan(b)
    if na is False and nb is False:
        return sbool(a == b)
    return _or(_and(na, nb), _and(_and(_not(na), _not(nb)), sbool(a == b)))


def _le(a, b):
    """Total order with NaN last (sorting)."""
    na, nb = _isnan(a), _isnan(b)
    if na is False and nb is False:
        return sbool(a <= b)
    return _or(nb, _and(_not(na), sbool(a <= b)))


def _lt(a, b):
    na, nb = _isnan(a), _isnan(b)
    if na is False and nb is False:
        return sbool(a < b)
    return _and(_not(na), _or(nb, sbool(a < b)))


class ndarray:
    """1-D (shape (n,)) or 2-D (shape (n, m)) array; data stored flat, row-major."""

    def __init__(self, data, shape=None, dtype=None):
        self.d = list(data)
        self.shape = (len(self.d),) if shape is None else tuple(shape)
        self.dtype = dtype

    @property
    def ndim(self): return len(self.shape)
    @property
    def size(self): return len(self.d)
    @property
    def T(self): raise ShimGap('ndarray.T')

    def __len__(self):
        return self.shape[0]

    def tolist(self):
        if self.ndim == 1:
            return list(self.d)
        m = self.shape[1]
        return [self.d[i * m:(i + 1) * m] for i in range(self.shape[0])]
    to_list = tolist

    def __iter__(self):
        if self.ndim == 1:
            return iter(self.d)
        m = self.shape[1]
        return iter([ndarray(self.d[i * m:(i + 1) * m]) for i in range(self.shape[0])])

    def copy(self):
        return ndarray(self.d, self.shape, self.dtype)

    def __deepcopy__(self, memo):
        return self.copy()

    def __array__(self, *a, **k):
        raise ShimGap('model array handed to real numpy')

    def _bin(self, o, f):
        if _is_series(o):
            return NotImplemented
        if isinstance(o, (list, tuple)):
            o = f_array(o)
        if isinstance(o, ndarray):
            if o.shape == self.shape:
                return ndarray([f(a, b) for a, b in zip(self.d, o.d)], self.shape)
            if len(o.d) == 1:
                return ndarray([f(a, o.d[0]) for a in self.d], self.shape)
            if len(self.d) == 1:
                return ndarray([f(self.d[0], b) for b in o.d], o.shape)
            raise ValueError('operands could not be broadcast together with shapes %s %s' % (self.shape, o.shape))
        return ndarray([f(a, o) for a in self.d], self.shape)

    def __add__(self, o): return self._bin(o, lambda a, b: a + b)
    def __radd__(self, o): return self._bin(o, lambda a, b: b + a)
    def __sub__(self, o): return self._bin(o, lambda a, b: a - b)
    def __rsub__(self, o): return self._bin(o, lambda a, b: b - a)
    def __mul__(self, o): return self._bin(o, _mul)
    def __rmul__(self, o): return self._bin(o, lambda a, b: _mul(b, a))
    def __truediv__(self, o): return self._bin(o, _div)
    def __rtruediv__(self, o): return self._bin(o, lambda a, b: _div(b, a))
    def __neg__(self): return ndarray([-a for a in self.d], self.shape)
    def __abs__(self): return ndarray([builtins.abs(a) for a in self.d], self.shape)

    def _inplace(self, r):
        # numpy's augmented assignments write into the array itself (aliases see the change)
        if r is NotImplemented:
            return r
        self.d[:] = r.d
        return self

    def __iadd__(self, o): return self._inplace(self.__add__(o))
    def __isub__(self, o): return self._inplace(self.__sub__(o))
    def __imul__(self, o): return self._inplace(self.__mul__(o))
    def __itruediv__(self, o): return self._inplace(self.__truediv__(o))
    def __iand__(self, o): return self._inplace(self.__and__(o))
    def __ior__(self, o): return self._inplace(self.__or__(o))
    def __lt__(self, o): return self._bin(o, lambda a, b: sbool(a < b))
    def __le__(self, o): return self._bin(o, lambda a, b: sbool(a <= b))
    def __gt__(self, o): return self._bin(o, lambda a, b: sbool(a > b))
    def __ge__(self, o): return self._bin(o, lambda a, b: sbool(a >= b))
    def __eq__(self, o): return self._bin(o, lambda a, b: sbool(a == b))
    def __ne__(self, o): return self._bin(o, lambda a, b: sbool(a != b))
    __hash__ = None
    def __and__(self, o): return self._bin(o, _and)
    def __rand__(self, o): return self._bin(o, _and)
    def __or__(self, o): return self._bin(o, _or)
    def __ror__(self, o): return self._bin(o, _or)
    def __invert__(self): return ndarray([_not(a) for a in self.d], self.shape)

    def __bool__(self):
        if len(self.d) == 1:
            return bool(self.d[0])
        raise ValueError('The truth value of an array with more than one element is ambiguous. '
                         'Use a.any() or a.all()')

    def __int__(self):
        if len(self.d) == 1:
            return f_cast(self.d[0], int)
        raise TypeError('only length-1 arrays can be converted to Python scalars')

    def _rows(self, key):
        """Resolve a key on axis 0 to a list of row positions."""
        n = self.shape[0]
        if isinstance(key, slice):
            return list(range(n))[key]
        if isinstance(key, tuple) and len(key) == 1:
            key = key[0]
        if isinstance(key, (ndarray, list)) or _is_series(key):
            k = _flat(key)
            if len(k) == 0:
                return []
            if builtins.all(_isboolish(b) for b in k):
                if len(k) != n:
                    raise IndexError('boolean index did not match indexed array along axis 0; '
                                     'size of axis is %d but size of corresponding boolean axis is %d' % (n, len(k)))
                return [i for i, b in enumerate(k) if bool(b)]
            out = []
            for i in k:
                i = operator_index(i)
                if i < -n or i >= n:
                    raise IndexError('index %d is out of bounds for axis 0 with size %d' % (i, n))
                out.append(i % n)
            return out
        raise ShimGap('array index of type %r' % (type(key),))

    def __getitem__(self, key):
        if isinstance(key, tuple) and len(key) == 2:
            if self.ndim != 2:
                raise IndexError('too many indices for array')
            r, c = key
            m = self.shape[1]
            if isinstance(c, (int, SymInt)) and not isinstance(c, bool):
                c = operator_index(c)
                if c < -m or c >= m:
                    raise IndexError('index %d is out of bounds for axis 1 with size %d' % (c, m))
                c %= m
                if isinstance(r, (int, SymInt)) and not isinstance(r, bool):
                    r = operator_index(r)
                    if r < -self.shape[0] or r >= self.shape[0]:
                        raise IndexError('index %d is out of bounds for axis 0 with size %d' % (r, self.shape[0]))
                    return self.d[(r % self.shape[0]) * m + c]
                return ndarray([self.d[i * m + c] for i in self._rows(r)])
            raise ShimGap('2-D index')
        if isinstance(key, (int, SymInt)) and not isinstance(key, bool):
            i = operator_index(key)
            n = self.shape[0]
            if i < -n or i >= n:
                raise IndexError('index %d is out of bounds for axis 0 with size %d' % (i, n))
            i %= n
            if self.ndim == 1:
                return self.d[i]
            m = self.shape[1]
            return ndarray(self.d[i * m:(i + 1) * m])
        if isinstance(key, ndarray) and key.ndim == 2 and key.shape == self.shape:
            return ndarray([x for x, b in zip(self.d, key.d) if bool(b)])
        if self.ndim == 1 and _symbolic_mask(key, len(self.d)):
            return MaskedSel(self.d, _flat(key))
        rows = self._rows(key)
        if self.ndim == 1:
            return ndarray([self.d[i] for i in rows], dtype=self.dtype)
        m = self.shape[1]
        return ndarray([x for i in rows for x in self.d[i * m:(i + 1) * m]], (len(rows), m))

    def __setitem__(self, key, val):
        if self.ndim != 1:
            raise ShimGap('setitem on a 2-D array')
        if isinstance(key, (int, SymInt)) and not isinstance(key, bool):
            i = operator_index(key)
            if i < -len(self.d) or i >= len(self.d):
                raise IndexError('index %d is out of bounds for axis 0 with size %d' % (i, len(self.d)))
            self.d[i] = val
            return
        if _symbolic_mask(key, len(self.d)):
            # state merging (np.where semantics): out[mask] = v  ==>  out_i = ite(mask_i, v_i, out_i)
            mask = _flat(key)
            if isinstance(val, MaskedSel) and val.same_mask(mask):
                for i, b in enumerate(mask):
                    self.d[i] = ite(b, val.full[i], self.d[i]) if isinstance(b, SymBool) else (val.full[i] if b else self.d[i])
                return
            if _scal(val):
                for i, b in enumerate(mask):
                    self.d[i] = ite(b, val, self.d[i]) if isinstance(b, SymBool) else (val if b else self.d[i])
                return
        rows = self._rows(key)
        if isinstance(val, (ndarray, list, tuple)) or _is_series(val):
            v = _flat(val)
            if len(v) == 1 and len(rows) != 1:
                v = v * len(rows)
            if len(v) != len(rows):
                raise ValueError('NumPy boolean array indexing assignment cannot assign %d input values to '
                                 'the %d output values where the mask is true' % (len(v), len(rows)))
            for i, x in zip(rows, v):
                self.d[i] = x
        else:
            for i in rows:
                self.d[i] = val

    def reshape(self, *shape):
        if len(shape) == 1 and isinstance(shape[0], (tuple, list)):
            shape = tuple(shape[0])
        shape = [operator_index(x) for x in shape]
        n = len(self.d)
        if -1 in shape:
            k = 1
            for x in shape:
                if x != -1:
                    k *= x
            shape[shape.index(-1)] = n // k if k else 0
        tot = 1
        for x in shape:
            tot *= x
        if tot != n:
            raise ValueError('cannot reshape array of size %d into shape %s' % (n, tuple(shape)))
        return ndarray(self.d, tuple(shape), self.dtype)

    def flatten(self): return ndarray(self.d)
    def ravel(self): return ndarray(self.d)
    def astype(self, t): return ndarray([f_cast(x, t) for x in self.d], self.shape, t)
    def argsort(self, *a, **k): return f_argsort(self)
    def sum(self, *a, **k): return f_sum(self)
    def min(self, *a, **k): return f_min(self)
    def max(self, *a, **k): return f_max(self)
    def mean(self, *a, **k): return f_mean(self)
    def any(self, *a, **k): return f_any(self)
    def all(self, *a, **k): return f_all(self)
    def item(self):
        if len(self.d) != 1:
            raise ValueError('can only convert an array of size 1 to a Python scalar')
        return self.d[0]

    def __repr__(self):
        return '<ndarray %s>' % (self.shape,)

    def __getattr__(self, n):
        if n.startswith('_') or n in ('d', 'shape', 'dtype', 'full', 'mask'):
            raise AttributeError(n)
        raise ShimGap('ndarray.' + n)


def _symbolic_mask(key, n):
    if not (isinstance(key, (ndarray, list)) or _is_series(key)):
        return False
    k = _flat(key)
    return len(k) == n and n > 0 and builtins.all(_isboolish(b) for b in k) and \
        builtins.any(isinstance(b, SymBool) for b in k)


class MaskedSel(ndarray):
    """a[mask] with an undecided symbolic mask: kept as (full-length values, mask) so that the idiom
    out[mask] = f(a[mask]) becomes an element-wise if-then-else instead of 2^n forks. Any use that
    needs the actual selection (length, iteration, reductions) materialises it by forking."""

    def __init__(self, full, mask):
        self.full = list(full)
        self.mask = list(mask)
        self._mat = None
        self.dtype = None

    def same_mask(self, mask):
        if len(mask) != len(self.mask):
            return False
        for a, b in zip(mask, self.mask):
            if isinstance(a, SymBool) != isinstance(b, SymBool):
                return False
            if isinstance(a, SymBool):
                if a.e.get_id() != b.e.get_id():
                    return False
            elif bool(a) != bool(b):
                return False
        return True

    @property
    def d(self):
        if self._mat is None:
            self._mat = [x for x, b in zip(self.full, self.mask) if bool(b)]
        return self._mat

    @property
    def shape(self):
        return (len(self.d),)

    def _bin(self, o, f):
        if isinstance(o, MaskedSel) and o.same_mask(self.mask):
            return MaskedSel([f(a, b) for a, b in zip(self.full, o.full)], self.mask)
        if _scal(o):
            return MaskedSel([f(a, o) for a in self.full], self.mask)
        return ndarray(self.d)._bin(o, f)

    def __neg__(self): return MaskedSel([-a for a in self.full], self.mask)
    def __abs__(self): return MaskedSel([builtins.abs(a) for a in self.full], self.mask)
    def copy(self): return MaskedSel(self.full, self.mask)
    def astype(self, t): return MaskedSel([f_cast(x, t) for x in self.full], self.mask)


# -------------------------------------------------------------------------------- conversions
def float_to_int(x):
    """int(x) of a symbolic float: truncation toward zero."""
    if isinstance(x, SymFPInt):
        return x
    if isinstance(x, SymFP):
        return SymFPInt(z3.fpRoundToIntegral(z3.RTZ(), x.e))
    v = x.v
    return SymInt(z3.If(v >= 0, z3.ToInt(v), -z3.ToInt(-v)))


def _frag_number(x):
    """A str made of exactly one formatted-integer atom (e.g. the digits of a METAR code) -> its value."""
    if isinstance(x, str) and core._TOK_L in x:
        parts = core.decode_fragments(x)
        if len(parts) == 1 and not isinstance(parts[0], str):
            return parts[0][0]
        raise ShimGap('number parsed from a string mixing text and formatted symbolic integers')
    return None


def f_cast(x, t):
    if isinstance(t, StrDType):
        if type(x) is str and core._TOK_L not in x:
            return x[:t.width]
        raise ShimGap('cast %r to a fixed-width string dtype' % (type(x),))
    name = getattr(t, '__name__', t)
    fn = _frag_number(x)
    if fn is not None:
        x = fn
    if t is float or name in ('float', 'float64', 'float_'):
        if isinstance(x, (SymFloat, SymFP)):
            return SymFP(x.e) if isinstance(x, SymFPInt) else x
        if isinstance(x, (SymInt, SymBool)):
            return SymFloat.of(x)
        if x is None:
            return nan
        if isinstance(x, str):
            return float(x)
        if isinstance(x, (bool, int, float)):
            return float(x)
        raise ShimGap('cast %r to float' % (type(x),))
    if t is int or name in ('int', 'int_', 'int64'):
        if isinstance(x, (SymInt, SymFPInt)):
            return x
        if isinstance(x, SymBool):
            return x.as_int()
        if isinstance(x, bool):
            return int(x)
        if isinstance(x, int):
            return x
        if isinstance(x, float):
            if x != x or math.isinf(x):
                raise ValueError('cannot convert float NaN to integer')
            return int(x)
        if isinstance(x, (SymFloat, SymFP)):
            if bool(x.isnan()):
                # pandas raises IntCastingNaNError (a ValueError); numpy casts to INT_MIN.
                raise ValueError('Cannot convert non-finite values (NA or inf) to integer')
            return float_to_int(x)
        if x is None:
            raise TypeError("int() argument must be a string, a bytes-like object or a real number, not 'NoneType'")
        if isinstance(x, str):
            return int(x)
        raise ShimGap('cast %r to int' % (type(x),))
    if t is bool or name in ('bool', 'bool_'):
        if x is None:
            return False
        if isinstance(x, SymBool):
            return x
        if isinstance(x, (SymFloat, SymFP)):
            return sbool(~(x == 0))     # NaN is truthy
        if isinstance(x, SymInt):
            return sbool(x != 0)
        return bool(x)
    if t is str or name == 'str':
        return x if isinstance(x, str) else str(x)
    if name == 'object' or t is object:
        return x
    raise ShimGap('astype(%r)' % (t,))


def f_array(x, dtype=None):
    if isinstance(x, ndarray):
        out = x.copy()
    elif _is_series(x):
        out = ndarray(x.v)
    elif getattr(x, '_is_frame', False):
        out = x.to_numpy()
    elif _scal(x):
        out = ndarray([x], ())
    else:
        x = list(x)
        if x and isinstance(x[0], (list, tuple, ndarray)):
            rows = [_tolist(r) for r in x]
            m = len(rows[0])
            out = ndarray([v for r in rows for v in r], (len(rows), m))
        else:
            out = ndarray(x)
    if dtype is not None:
        out = out.astype(dtype)
    elif out.dtype is None and out.ndim == 1:
        out.dtype = _str_dtype(out.d)
    return out


def f_asarray(x, dtype=None):
    """np.asarray: no copy when the argument already is an array of the requested kind."""
    if isinstance(x, ndarray) and not isinstance(x, MaskedSel):
        name = getattr(dtype, '__name__', dtype)
        if dtype is None:
            return x
        if name in ('float', 'float64', 'float_') and x.d and builtins.all(
                isinstance(v, (float, SymFloat, SymFP)) and not isinstance(v, SymFPInt) for v in x.d):
            return x
    return f_array(x, dtype)


def f_full_like(a, fill, dtype=None):
    n = len(_flat(a))
    out = ndarray([fill] * n, getattr(a, 'shape', None) if isinstance(a, ndarray) else None)
    if dtype is not None:
        out = out.astype(dtype)
    return out


def f_ones_like(a): return f_full_like(a, 1.0)
def f_zeros_like(a): return f_full_like(a, 0.0)


def f_zeros(n, dtype=None):
    if isinstance(n, tuple):
        raise ShimGap('zeros with a shape tuple')
    return ndarray([0.0] * operator_index(n))


def f_ones(n, dtype=None):
    return ndarray([1.0] * operator_index(n))


def f_arange(a, b=None, step=1):
    if b is None:
        a, b = 0, a
    return ndarray(list(range(operator_index(a), operator_index(b), operator_index(step))))


def f_linspace(a, b, n, dtype=None):
    n = operator_index(n)
    if n == 1:
        out = [a]
    else:
        out = [a + (b - a) * i / (n - 1) for i in range(n)]
    if dtype is not None:
        out = [f_cast(v, dtype) for v in out]
    return ndarray(out)


def f_concatenate(parts, axis=0):
    out = []
    for p in parts:
        out += _flat(p)
    return ndarray(out)


# -------------------------------------------------------------------------------- sorting
def _insertion_order(v):
    """Stable insertion sort by forking comparisons; returns the order (list of positions)."""
    idx = []
    for i, x in enumerate(v):
        j = len(idx)
        # scan from the right: stable, and cheap on already-sorted input
        while j > 0 and bool(_lt(x, v[idx[j - 1]])):
            j -= 1
        idx.insert(j, i)
    return idx


def _sorted(vals):
    v = list(vals)
    return [v[i] for i in _insertion_order(v)]


def _sorted_net(vals):
    """Sorted values as If-terms (no forks). Values must not be NaN."""
    v = list(vals)
    n = len(v)
    if not builtins.any(is_sym(x) for x in v):
        return sorted(v)
    for rnd in range(n):
        for i in range(rnd % 2, n - 1, 2):
            a, b = v[i], v[i + 1]
            c = sbool(a <= b)
            v[i], v[i + 1] = ite(c, a, b), ite(c, b, a)
    return v


def f_sort(a, axis=-1): return ndarray(_sorted(_flat(a)))
def f_argsort(a, *args, **kw): return ndarray(_insertion_order(_flat(a)))


def f_unique(a, return_counts=False):
    s = _sorted(_flat(a))
    out, cnt = [], []
    for x in s:
        if out and bool(_same(out[-1], x)):
            cnt[-1] += 1
            continue
        out.append(x)
        cnt.append(1)
    if return_counts:
        return ndarray(out), ndarray(cnt)
    return ndarray(out)


def f_diff(a):
    v = _flat(a)
    return ndarray([v[i + 1] - v[i] for i in range(len(v) - 1)])


def f_sum(a, axis=None):
    if _scal(a):
        return a
    v = _flat(a)
    if not v:
        return 0
    if builtins.all(_isboolish(x) for x in v):
        return core.count_true(v)
    t = v[0]
    for x in v[1:]:
        t = t + x
    return t


def f_mean(a, axis=None):
    v = _flat(a)
    if not v:
        return nan
    return f_sum(v) / len(v)


def _min2(a, b):
    if is_sym(a) or is_sym(b):
        return ite(sbool(a <= b), a, b)
    return a if a <= b else b


def _max2(a, b):
    if is_sym(a) or is_sym(b):
        return ite(sbool(a >= b), a, b)
    return a if a >= b else b


def _nan_any(v):
    r = False
    for x in v:
        r = _or(r, _isnan(x))
    return r


def _reduce(v, f2, what):
    if not v:
        raise ValueError('zero-size array to reduction operation %s which has no identity' % what)
    na = _nan_any(v)
    if na is True:
        return nan
    m = v[0]
    for x in v[1:]:
        m = f2(m, x)
    if na is False:
        return m
    # symbolic NaN flags (R model): result is NaN iff any element is
    if isinstance(m, SymFloat) or isinstance(m, (int, float)):
        m = SymFloat.of(m)
        return SymFloat(m.v, z3.simplify(core.B(na)))
    return nan if bool(na) else m


def f_min(a, axis=None): return _reduce(_flat(a), _min2, 'minimum')
def f_max(a, axis=None): return _reduce(_flat(a), _max2, 'maximum')
def f_amin(a, axis=None): return f_min(a)
def f_amax(a, axis=None): return f_max(a)


def _nonnan(a):
    return [x for x in _flat(a) if not bool(_isnan(x))]


def f_nanmin(a):
    v = _nonnan(a)
    return nan if not v else f_min(v)


def f_nanmax(a):
    v = _nonnan(a)
    return nan if not v else f_max(v)


def f_argmin(a):
    v = _flat(a)
    if not v:
        raise ValueError('attempt to get argmin of an empty sequence')
    best = 0
    for i in range(1, len(v)):
        if bool(_lt(v[i], v[best])):
            best = i
    return best


def f_any(a, axis=None):
    r = False
    for x in _flat(a):
        r = _or(r, _truthy(x))
    return r


def f_all(a, axis=None):
    r = True
    for x in _flat(a):
        r = _and(r, _truthy(x))
    return r


def _truthy(x):
    if _isboolish(x):
        return x
    return f_cast(x, bool)


def f_isnan(a):
    if _scal(a):
        if a is None:
            raise TypeError("ufunc 'isnan' not supported for the input types")
        if isinstance(a, str):
            raise TypeError("ufunc 'isnan' not supported for the input types")
        return _isnan(a)
    if _is_series(a):
        return a._map(_isnan)
    return ndarray([_isnan(x) for x in _flat(a)], getattr(a, 'shape', None))


def f_isin(a, b):
    bv = _flat(b)
    out = []
    for x in _flat(a):
        r = False
        for y in bv:
            r = _or(r, sbool(x == y))
        out.append(r)
    return ndarray(out)


def _elementwise(a, f):
    if isinstance(a, MaskedSel):
        return MaskedSel([f(x) for x in a.full], a.mask)
    if _scal(a):
        return f(a)
    if _is_series(a):
        return a._map(f)
    return ndarray([f(x) for x in _flat(a)], getattr(a, 'shape', None) if isinstance(a, ndarray) else None)


def _floor(x):
    if isinstance(x, SymFPInt):
        return SymFP(x.e)
    if isinstance(x, SymFP):
        return SymFP(z3.fpRoundToIntegral(z3.RTN(), x.e))
    if isinstance(x, SymFloat):
        return SymFloat(z3.ToReal(z3.ToInt(x.v)), x.n)
    if isinstance(x, SymInt):
        return SymFloat.of(x)
    x = float(x)
    return float(math.floor(x)) if x == x and not math.isinf(x) else x


def _ceil(x):
    if isinstance(x, SymFPInt):
        return SymFP(x.e)
    if isinstance(x, SymFP):
        return SymFP(z3.fpRoundToIntegral(z3.RTP(), x.e))
    if isinstance(x, SymFloat):
        return SymFloat(-z3.ToReal(z3.ToInt(-x.v)), x.n)
    if isinstance(x, SymInt):
        return SymFloat.of(x)
    x = float(x)
    return float(math.ceil(x)) if x == x and not math.isinf(x) else x


def _round(x):
    """np.round: half to even."""
    if isinstance(x, SymFPInt):
        return SymFP(x.e)
    if isinstance(x, SymFP):
        return SymFP(z3.fpRoundToIntegral(z3.RNE(), x.e))
    if isinstance(x, SymFloat):
        f = z3.ToInt(x.v)
        fr = x.v - z3.ToReal(f)
        r = z3.If(fr < 0.5, f, z3.If(fr > 0.5, f + 1, z3.If(f % 2 == 0, f, f + 1)))
        return SymFloat(z3.ToReal(r), x.n)
    if isinstance(x, SymInt):
        return x
    x = float(x)
    return float(builtins.round(x)) if x == x and not math.isinf(x) else x


def f_floor(a): return _elementwise(a, _floor)
def f_ceil(a): return _elementwise(a, _ceil)


def f_round(a, decimals=0):
    if decimals != 0:
        # numpy: rint(x * 10**d) / 10**d
        k = 10.0 ** decimals if decimals < 0 else float(10 ** decimals)
        return _elementwise(a, lambda x: (_round(x * k) / k) if isinstance(x, (SymFloat, SymFP, float)) else x)
    return _elementwise(a, _round)


def f_abs(a): return _elementwise(a, builtins.abs)

_EXP = None


def _exp(x):
    global _EXP
    if isinstance(x, SymFloat):
        if _EXP is None:
            _EXP = z3.Function('exp', z3.RealSort(), z3.RealSort())
        return SymFloat(_EXP(x.v), x.n)
    if is_sym(x):
        raise ShimGap('exp of %r' % (type(x),))
    return math.exp(x)


def f_exp(a): return _elementwise(a, _exp)


def _sqrt(x):
    if isinstance(x, SymFloat):
        f = z3.Function('sqrt', z3.RealSort(), z3.RealSort())
        return SymFloat(f(x.v), x.n)
    if is_sym(x):
        raise ShimGap('sqrt of %r' % (type(x),))
    return math.sqrt(x) if x >= 0 else nan


def f_sqrt(a): return _elementwise(a, _sqrt)
def f_sin(a): return _elementwise(a, lambda x: math.sin(x) if not is_sym(x) else (_ for _ in ()).throw(ShimGap('sin')))


def f_where(c, *args):
    if args:
        x, y = args
        cv = _flat(c)
        xv = _flat(x) if not _scal(x) else [x] * len(cv)
        yv = _flat(y) if not _scal(y) else [y] * len(cv)
        return ndarray([ite(b, p, q) if isinstance(b, SymBool) else (p if b else q)
                        for b, p, q in zip(cv, xv, yv)])
    return (ndarray([i for i, b in enumerate(_flat(c)) if bool(b)]),)


def f_delete(a, idx):
    if isinstance(idx, tuple):
        idx = idx[0]
    drop = set(operator_index(i) for i in _flat(idx))
    return ndarray([x for i, x in enumerate(_flat(a)) if i not in drop])


def f_ndim(a):
    if isinstance(a, ndarray):
        return a.ndim
    if _is_series(a):
        return 1
    if isinstance(a, (list, tuple)):
        return 2 if a and isinstance(a[0], (list, tuple, ndarray)) else 1
    return 0


def f_searchsorted(a, v, side='left'):
    arr = _flat(a)
    i = 0
    if side == 'left':
        while i < len(arr) and bool(sbool(arr[i] < v)):
            i += 1
    else:
        while i < len(arr) and bool(sbool(arr[i] <= v)):
            i += 1
    return i


def f_digitize(x, bins, right=False):
    """numpy.digitize for increasing bins: right=False -> bins[i-1] <= x < bins[i] (= searchsorted side='right')."""
    b = _flat(bins)
    if builtins.any(is_sym(v) for v in b) is False and builtins.any(b[i] > b[i + 1] for i in range(len(b) - 1)):
        raise ShimGap('digitize with decreasing bins')
    one = lambda v: f_searchsorted(b, v, side='left' if right else 'right')
    if _scal(x):
        return one(x)
    return ndarray([one(v) for v in _flat(x)])


def f_isclose(a, b, rtol=1e-05, atol=1e-08, equal_nan=False):
    """numpy.isclose: |a - b| <= atol + rtol * |b| (asymmetric in b, as numpy documents); NaN is close to nothing."""
    def one(x, y):
        d = x - y
        ad = ite(d >= 0, d, -d) if is_sym(d) else builtins.abs(d)
        ay = ite(y >= 0, y, -y) if is_sym(y) else builtins.abs(y)
        r = sbool(ad <= atol + rtol * ay)
        nn = _or(_isnan(x), _isnan(y))
        if equal_nan:
            return _or(_and(_isnan(x), _isnan(y)), _and(_not(nn), r))
        return _and(_not(nn), r)
    if _scal(a) and _scal(b):
        return one(a, b)
    av, bv = _flat(a), _flat(b)
    if _scal(a):
        av = [a] * len(bv)
    if _scal(b):
        bv = [b] * len(av)
    return ndarray([one(x, y) for x, y in zip(av, bv)])


def f_clip(a, lo, hi):
    return _elementwise(a, lambda x: _min2(_max2(x, lo), hi))


def f_maximum(a, b):
    if _scal(a) and _scal(b):
        return _max2(a, b)
    raise ShimGap('maximum on arrays')


def f_minimum(a, b):
    if _scal(a) and _scal(b):
        return _min2(a, b)
    raise ShimGap('minimum on arrays')


def f_percentile(a, q, **kw):
    """numpy's default 'linear' method."""
    if kw:
        raise ShimGap('percentile(%s)' % ','.join(kw))
    v = _flat(a)
    n = len(v)
    if n == 0:
        raise IndexError('index -1 is out of bounds for axis 0 with size 0')
    if not _scal(q):
        raise ShimGap('percentile with an array of q')
    if not is_sym(q) and not (0 <= q <= 100):
        raise ValueError('Percentiles must be in the range [0, 100]')
    na = _nan_any(v)
    if na is True:
        return nan
    if na is not False:
        vals = [SymFloat(SymFloat.of(x).v) for x in v]
    else:
        vals = v
    s = _sorted_net(vals)
    if n == 1:
        res = s[0]
    else:
        vi = q / 100 * (n - 1)
        res = None
        for k in range(n - 1):
            if k == n - 2 or bool(sbool(vi < k + 1)):
                g = vi - k
                res = s[k] + (s[k + 1] - s[k]) * g
                break
    if na is not False:
        res = SymFloat.of(res)
        return SymFloat(res.v, z3.simplify(core.B(na)))
    return res


def f_flatnonzero(a):
    return ndarray([i for i, b in enumerate(_flat(a)) if bool(_truthy(b))])


def f_nonzero(a):
    return (f_flatnonzero(a),)


def f_cumsum(a, axis=None):
    v = _flat(a)
    out, t = [], None
    for x in v:
        t = x if t is None else t + x
        out.append(t)
    return ndarray(out)


def f_argmax(a):
    v = _flat(a)
    if not v:
        raise ValueError('attempt to get argmax of an empty sequence')
    best = 0
    for i in range(1, len(v)):
        if bool(_lt(v[best], v[i])):
            best = i
    return best


def f_nanmean(a):
    v = _nonnan(a)
    return nan if not v else f_sum(v) / len(v)


def f_nansum(a):
    v = _nonnan(a)
    return f_sum(v) if v else 0.0


def f_median(a):
    return f_percentile(a, 50)


def f_count_nonzero(a):
    return core.count_true([_truthy(x) for x in _flat(a)])


def f_logical_and(a, b):
    if _scal(a) and _scal(b):
        return _and(_truthy(a), _truthy(b))
    return f_array(a)._bin(b if not _scal(b) else b, lambda x, y: _and(_truthy(x), _truthy(y)))


def f_logical_or(a, b):
    if _scal(a) and _scal(b):
        return _or(_truthy(a), _truthy(b))
    return f_array(a)._bin(b, lambda x, y: _or(_truthy(x), _truthy(y)))


def f_logical_not(a):
    return _elementwise(a, lambda x: _not(_truthy(x)))


def f_append(a, b, axis=None):
    return ndarray(_flat(a) + _flat(b))


def f_hstack(parts):
    return f_concatenate(parts)


def f_empty(n, dtype=None):
    return f_zeros(n)


class StrDType:
    """numpy's fixed-width unicode dtype '<U{width}': casting to it truncates silently."""
    kind = 'U'

    def __init__(self, width): self.width = width
    def __repr__(self): return "dtype('<U%d')" % self.width
    def __eq__(self, o): return isinstance(o, StrDType) and o.width == self.width
    def __hash__(self): return hash(('U', self.width))


def _str_dtype(v):
    """dtype numpy gives a sequence of plain concrete strings, or None if it is not such a sequence."""
    if v and builtins.all(type(x) is str and core._TOK_L not in x for x in v):
        return StrDType(builtins.max(1, builtins.max(len(x) for x in v)))
    return None


def f_atleast_1d(a):
    v = [a] if isinstance(a, str) else _flat(a)
    if builtins.any(isinstance(x, str) for x in v):
        dt = _str_dtype(v)
        if dt is None:
            raise ShimGap('numpy.atleast_1d on a mix of strings and other values / on symbolic text')
        return ndarray(v, None, dt)
    return ndarray(v)


def f_isfinite(a):
    return _elementwise(a, lambda x: _not(_isnan(x)) if isinstance(x, (SymFloat, SymFP)) and not isinstance(x, core._Inf)
                        else (isinstance(x, (int, float)) and x == x and x not in (inf, -inf)))


class RandomState:
    """numpy.random.RandomState(seed): a private generator = (seed, number of consumers served so far). The mixture stub
    records the pair each fit sees and advances the counter (scikit-learn's check_random_state hands the very object on, so
    every fit draws from it). Drawing from it directly is not modelled."""
    _is_model_rs = True

    def __init__(self, seed=None):
        if seed is None:
            RANDOM.consume('RandomState(None)')      # seeded from the OS: not reproducible
        self.seed_value = seed
        self.n_used = 0

    def take(self):
        k = (self.seed_value, self.n_used)
        self.n_used += 1
        return k

    def __repr__(self): return 'RandomState(%r)@%d' % (self.seed_value, self.n_used)

    def __getattr__(self, n):
        if n.startswith('__'):
            raise AttributeError(n)
        raise ShimGap('numpy.random.RandomState.' + n)


class _Random:
    """numpy.random as an explicit state cell with an access log (C09). The state is the documented legacy tuple
    ('MT19937', key, pos, has_gauss, cached_gaussian); set_state also accepts the 3-tuple form, which resets the last
    two fields to 0 and 0.0 as numpy documents."""

    def __init__(self):
        self.state = ('MT19937', 'key0', 624, 0, 0.0)
        self.log = []

    def get_state(self, legacy=True):
        self.log.append('get_state')
        if not legacy:
            raise ShimGap('numpy.random.get_state(legacy=False)')
        return tuple(self.state)

    def set_state(self, st):
        self.log.append('set_state')
        st = tuple(st)
        if len(st) == 3:
            st = st + (0, 0.0)
        if len(st) != 5 or st[0] != 'MT19937':
            raise ValueError('state must be a tuple of 3 or 5 items starting with MT19937')
        self.state = st

    def seed(self, v=None):
        self.log.append('seed')
        self.state = ('MT19937', ('seeded', v), 624, 0, 0.0)

    def consume(self, what):
        self.log.append(what)
        self.state = ('MT19937', ('advanced', self.state[1], what), self.state[2], ('gauss-after', what), ('cached-after', what))

    RandomState = RandomState

    def __getattr__(self, n):
        if n.startswith('__'):
            raise AttributeError(n)

        def draw(*a, **k):
            self.consume(n)
            raise ShimGap('numpy.random.' + n)
        return draw


RANDOM = _Random()
EXPORT = {k[2:]: v for k, v in list(globals().items()) if k.startswith('f_')}


def install():
    m = _Gap('numpy')
    for k, v in EXPORT.items():
        setattr(m, k, v)
    m.ndarray = ndarray
    m.nan = nan
    m.inf = inf
    m.pi = math.pi
    m.random = RANDOM
    m.int_ = int
    m.int64 = int
    m.float64 = float
    m.float_ = float
    m.bool_ = bool
    m.asarray = f_asarray
    m.__version__ = 'model'
    sys.modules['numpy'] = m
    return m
