"""Pure-Python model of the part of pandas that ampycloud uses, with label semantics: every
frame/series carries its list of index labels (possibly repeated). Boolean-Series selection is
positional when the indexer carries the same index and goes through label alignment otherwise
(which raises on repeated labels, as pandas does); .loc[labels] and .drop(labels) act on every
row carrying one of the labels. Anything unmodelled raises ShimGap.
"""
import sys, types, builtins, math
import z3
from symex import core
from symex.core import SymBool, SymInt, SymFloat, SymFP, ShimGap, is_sym, ite, sbool
from models import npmodel as np_
from models.npmodel import (ndarray, _isnan, _and, _or, _not, _same, operator_index, _flat,
                            _isboolish, f_cast)

nan = float('nan')


class StringDtype:
    def __eq__(self, o): return isinstance(o, StringDtype) or o == 'string'
    def __ne__(self, o): return not self.__eq__(o)
    def __hash__(self): return 7
    def __repr__(self): return 'string'
    __str__ = __repr__


class NarrowDtype:
    """A numpy number dtype other than the default width (int32, float32 ...): equal to no Python type."""

    def __init__(self, kind, bits): self.kind, self.bits = kind, bits
    def __eq__(self, o): return isinstance(o, NarrowDtype) and (o.kind, o.bits) == (self.kind, self.bits) or o == repr(self)
    def __ne__(self, o): return not self.__eq__(o)
    def __hash__(self): return hash((self.kind, self.bits))
    def __repr__(self): return {'i': 'int', 'f': 'float', 'u': 'uint'}[self.kind] + str(self.bits)
    __str__ = __repr__


def _dtype_kind(t):
    if isinstance(t, NarrowDtype):
        return t.kind
    if isinstance(t, (Series, ndarray)):
        return _dtype_kind(t.dtype)
    n = getattr(t, '__name__', t)
    if t is float or n in ('float', 'float64', 'float_', 'float32', 'float16'):
        return 'f'
    if t is int or n in ('int', 'int64', 'int_', 'int32', 'int16', 'int8'):
        return 'i'
    if t is bool or n in ('bool', 'bool_'):
        return 'b'
    if t is None:
        raise ShimGap('kind of an untracked dtype')
    return 'O'


class _ApiTypes:
    is_float_dtype = staticmethod(lambda t: _dtype_kind(t) == 'f')
    is_integer_dtype = staticmethod(lambda t: _dtype_kind(t) in ('i', 'u'))
    is_bool_dtype = staticmethod(lambda t: _dtype_kind(t) == 'b')
    is_numeric_dtype = staticmethod(lambda t: _dtype_kind(t) in ('i', 'u', 'f', 'b'))
    is_string_dtype = staticmethod(lambda t: isinstance(t, StringDtype) or t is str)


class _Gap(types.ModuleType):
    def __getattr__(self, n):
        if n.startswith('__'):
            raise AttributeError(n)
        raise ShimGap('pandas.' + n)


def _isnull(x):
    if x is None:
        return True
    return _isnan(x)


def _lab_eq(a, b):
    if isinstance(a, str) != isinstance(b, str):
        return False
    return bool(sbool(a == b))


class Index:
    _is_index = True

    def __init__(self, labels):
        self.l = list(labels)

    def __len__(self): return len(self.l)
    def __iter__(self): return iter(self.l)

    def __getitem__(self, i):
        if isinstance(i, slice):
            return Index(self.l[i])
        i = operator_index(i)
        if i < -len(self.l) or i >= len(self.l):
            raise IndexError('index %d is out of bounds for axis 0 with size %d' % (i, len(self.l)))
        return self.l[i]

    def tolist(self): return list(self.l)
    to_list = tolist
    def to_numpy(self): return ndarray(self.l)
    @property
    def values(self): return ndarray(self.l)

    def get_loc(self, k):
        hits = [i for i, x in enumerate(self.l) if _lab_eq(x, k)]
        if not hits:
            raise KeyError(k)
        if len(hits) > 1:
            raise ShimGap('get_loc on a repeated label')
        return hits[0]

    def __contains__(self, k): return builtins.any(_lab_eq(x, k) for x in self.l)
    def same(self, o): return self is o or (len(self.l) == len(o.l) and builtins.all(
        (a is b) or _plain_eq(a, b) for a, b in zip(self.l, o.l)))

    def unique_labels(self):
        for i, a in enumerate(self.l):
            for b in self.l[:i]:
                if _lab_eq(a, b):
                    return False
        return True
    is_unique = property(unique_labels)

    def __eq__(self, o): raise ShimGap('Index ==')
    __hash__ = None
    def __repr__(self): return 'Index(%r)' % (self.l,)

    def __getattr__(self, n):
        if n.startswith('__') or n == 'l':
            raise AttributeError(n)
        raise ShimGap('Index.' + n)

    def _dedup(self, labs):
        out = []
        for x in labs:
            if not builtins.any(_lab_eq(x, y) for y in out):
                out.append(x)
        return out

    def unique(self): return Index(self._dedup(self.l))
    def append(self, o): return Index(self.l + list(o.l if isinstance(o, Index) else _flat(o)))

    def union(self, o, sort=None):
        labs = self._dedup(self.l + list(o.l if isinstance(o, Index) else _flat(o)))
        try:
            labs = np_._sorted(labs)
        except TypeError:
            pass
        return Index(labs)

    def intersection(self, o, sort=False):
        ol = list(o.l if isinstance(o, Index) else _flat(o))
        return Index(self._dedup([x for x in self.l if builtins.any(_lab_eq(x, y) for y in ol)]))

    def difference(self, o, sort=None):
        ol = list(o.l if isinstance(o, Index) else _flat(o))
        return Index(np_._sorted(self._dedup([x for x in self.l if not builtins.any(_lab_eq(x, y) for y in ol)])))

    def isin(self, vals):
        vals = list(_flat(vals))
        return ndarray([builtins.any(_lab_eq(x, y) for y in vals) for x in self.l])

    @property
    def is_monotonic_increasing(self):
        return builtins.all(bool(sbool(a <= b)) for a, b in zip(self.l, self.l[1:]))

    @property
    def has_duplicates(self): return not self.unique_labels()
    def __deepcopy__(self, memo): return Index(list(self.l))


def _plain_eq(a, b):
    if is_sym(a) or is_sym(b):
        return bool(sbool(a == b))
    return type(a) == type(b) and a == b


def _pos_from_mask(owner_index, mask):
    """Boolean mask (Series/ndarray/list) -> row positions, with label alignment if needed."""
    if isinstance(mask, Series):
        if mask.index.same(owner_index):
            vals = mask.v
        else:
            if not (mask.index.unique_labels() and owner_index.unique_labels()):
                raise IndexError('Unalignable boolean Series provided as indexer (index of the boolean Series and of '
                                 'the indexed object do not match).')
            vals = []
            for l in owner_index.l:
                hit = [v for ml, v in zip(mask.index.l, mask.v) if _lab_eq(ml, l)]
                if not hit:
                    raise IndexError('Unalignable boolean Series provided as indexer (index of the boolean '
                                     'Series and of the indexed object do not match).')
                vals.append(hit[0])
    else:
        vals = _flat(mask)
        if len(vals) != len(owner_index):
            raise IndexError('Boolean index has wrong length: %d instead of %d' % (len(vals), len(owner_index)))
    return [i for i, b in enumerate(vals) if bool(b)]


def _is_boolmask(k):
    if isinstance(k, Series):
        return k.dtype is bool or (len(k.v) > 0 and builtins.all(_isboolish(b) for b in k.v))
    if isinstance(k, ndarray):
        return len(k.d) > 0 and builtins.all(_isboolish(b) for b in k.d)
    if isinstance(k, list):
        return len(k) > 0 and builtins.all(_isboolish(b) for b in k)
    return False


def _cmp(a, b, op):
    if a is None or b is None:
        return {'eq': False, 'ne': True}.get(op, False)
    if isinstance(a, str) != isinstance(b, str):
        if op in ('eq', 'ne'):
            return op == 'ne'
        raise TypeError("'%s' not supported between instances of 'str' and 'int'" % op)
    if op == 'lt': return sbool(a < b)
    if op == 'le': return sbool(a <= b)
    if op == 'gt': return sbool(a > b)
    if op == 'ge': return sbool(a >= b)
    if op == 'eq': return sbool(a == b)
    return sbool(a != b)


def _count(v):
    return core.count_true(v)


class Series:
    _is_series = True

    def __init__(self, vals=None, index=None, name=None, dtype=None):
        if isinstance(vals, Series):
            vals = vals.v
        elif isinstance(vals, ndarray):
            vals = vals.d
        self.v = list(vals) if vals is not None else []
        self.index = index if isinstance(index, Index) else Index(range(len(self.v)) if index is None else index)
        if len(self.index) != len(self.v):
            raise ValueError('Length of values (%d) does not match length of index (%d)' % (len(self.v), len(self.index)))
        self.name = name
        self.dtype = dtype

    def __len__(self): return len(self.v)
    def __iter__(self): return iter(self.v)
    @property
    def shape(self): return (len(self.v),)
    @property
    def ndim(self): return 1
    @property
    def size(self): return len(self.v)
    @property
    def empty(self): return len(self.v) == 0

    def _map(self, f, dtype=None):
        return Series([f(x) for x in self.v], self.index, self.name, dtype)

    def _bin(self, o, f, dtype=None):
        if isinstance(o, Series):
            if not o.index.same(self.index):
                if len(o.v) == len(self.v) and o.index.unique_labels() and self.index.unique_labels():
                    ov = []
                    for l in self.index.l:
                        hit = [v for ml, v in zip(o.index.l, o.v) if _lab_eq(ml, l)]
                        if not hit:
                            raise ShimGap('Series alignment with differing label sets')
                        ov.append(hit[0])
                else:
                    raise ShimGap('Series alignment (repeated labels or different lengths)')
            else:
                ov = o.v
        elif isinstance(o, (ndarray, list, tuple)):
            ov = _flat(o)
            if len(ov) != len(self.v):
                raise ValueError('Lengths must match to compare' if dtype is bool else
                                 'operands could not be broadcast together')
        elif getattr(o, '_is_frame', False):
            return NotImplemented
        else:
            ov = [o] * len(self.v)
        return Series([f(a, b) for a, b in zip(self.v, ov)], self.index, self.name, dtype)

    def __add__(self, o): return self._bin(o, lambda a, b: a + b)
    def __radd__(self, o): return self._bin(o, lambda a, b: b + a)
    def __sub__(self, o): return self._bin(o, lambda a, b: a - b)
    def __rsub__(self, o): return self._bin(o, lambda a, b: b - a)
    def __mul__(self, o): return self._bin(o, np_._mul, bool if self.dtype is bool else None)
    def __rmul__(self, o): return self._bin(o, lambda a, b: np_._mul(b, a), bool if self.dtype is bool else None)
    def __truediv__(self, o): return self._bin(o, np_._div)
    def __rtruediv__(self, o): return self._bin(o, lambda a, b: np_._div(b, a))
    def __lt__(self, o): return self._bin(o, lambda a, b: _cmp(a, b, 'lt'), bool)
    def __le__(self, o): return self._bin(o, lambda a, b: _cmp(a, b, 'le'), bool)
    def __gt__(self, o): return self._bin(o, lambda a, b: _cmp(a, b, 'gt'), bool)
    def __ge__(self, o): return self._bin(o, lambda a, b: _cmp(a, b, 'ge'), bool)
    def __eq__(self, o): return self._bin(o, lambda a, b: _cmp(a, b, 'eq'), bool)
    def __ne__(self, o): return self._bin(o, lambda a, b: _cmp(a, b, 'ne'), bool)
    __hash__ = None
    def __and__(self, o): return self._bin(o, _and, bool)
    def __rand__(self, o): return self._bin(o, _and, bool)
    def __or__(self, o): return self._bin(o, _or, bool)
    def __ror__(self, o): return self._bin(o, _or, bool)
    def __invert__(self): return self._map(_not, bool)

    def _inplace(self, r):
        """pandas' augmented assignments write the result into the object itself (every alias sees it)."""
        if r is NotImplemented:
            return r
        if not r.index.same(self.index):
            raise ShimGap('augmented assignment that changes the index of a Series')
        self.v[:] = r.v
        self.dtype = r.dtype
        return self
    def __iand__(self, o): return self._inplace(self.__and__(o))
    def __ior__(self, o): return self._inplace(self.__or__(o))
    def __iadd__(self, o): return self._inplace(self.__add__(o))
    def __isub__(self, o): return self._inplace(self.__sub__(o))
    def __imul__(self, o): return self._inplace(self.__mul__(o))
    def __itruediv__(self, o): return self._inplace(self.__truediv__(o))
    def __neg__(self): return self._map(lambda a: -a)
    def __abs__(self): return self._map(builtins.abs)
    def abs(self): return self._map(builtins.abs)

    def __bool__(self):
        raise ValueError('The truth value of a Series is ambiguous. Use a.empty, a.bool(), a.item(), a.any() or a.all().')

    def _take(self, pos):
        return Series([self.v[i] for i in pos], Index([self.index.l[i] for i in pos]), self.name, self.dtype)

    def __getitem__(self, k):
        if _is_boolmask(k) or (isinstance(k, (Series, ndarray, list)) and len(k) == 0 and len(self.v) == 0):
            return self._take(_pos_from_mask(self.index, k))
        if isinstance(k, (Series, ndarray, list)) and len(k) == 0:
            return self._take([])
        if isinstance(k, (str, int, SymInt)) and not isinstance(k, bool):
            hits = [i for i, l in enumerate(self.index.l) if _lab_eq(l, k)]
            if not hits:
                raise KeyError(k)
            if len(hits) == 1:
                return self.v[hits[0]]
            return self._take(hits)
        if isinstance(k, slice):
            return self._take(list(range(len(self.v)))[k])
        raise ShimGap('Series[%r]' % (type(k),))

    def __setitem__(self, k, val):
        if _is_boolmask(k):
            for i in _pos_from_mask(self.index, k):
                self.v[i] = val
            return
        raise ShimGap('Series.__setitem__')

    @property
    def values(self): return ndarray(self.v)
    def to_numpy(self, dtype=None, **k):
        return ndarray(self.v) if dtype is None else ndarray(self.v).astype(dtype)
    def to_list(self): return list(self.v)
    tolist = to_list
    @property
    def loc(self): return _SLoc(self)
    @property
    def iloc(self): return _SILoc(self)
    @property
    def at(self): return _SLoc(self)

    def astype(self, t):
        if isinstance(t, StringDtype) or t is str or t == 'string' or t == 'str':
            return Series([x if (x is None or isinstance(x, str) or getattr(x, '_is_symstr', False)) else str(x)
                           for x in self.v], self.index, self.name, t)
        return Series([f_cast(x, t) for x in self.v], self.index, self.name, t)

    def copy(self, deep=True): return Series(list(self.v), Index(list(self.index.l)), self.name, self.dtype)
    def notna(self): return self._map(lambda x: _not(_isnull(x)), bool)
    notnull = notna
    def isna(self): return self._map(_isnull, bool)
    isnull = isna

    def isin(self, vals):
        vals = list(_flat(vals))
        return self._map(lambda x: _anyeq(x, vals), bool)

    def apply(self, f): return self._map(f)
    map = apply

    def diff(self):
        return Series(([nan] if self.v else []) + [self.v[i] - self.v[i - 1] for i in range(1, len(self.v))], self.index, self.name)

    def fillna(self, val):
        def f(x):
            n = _isnull(x)
            if isinstance(n, SymBool):
                if isinstance(x, SymBool) or isinstance(val, bool):
                    raise ShimGap('fillna on a symbolic-NaN boolean')
                return ite(n, val, x)
            return val if n else x
        return self._map(f, self.dtype)

    def _valid(self):
        return [x for x in self.v if not bool(_isnull(x))]

    def sum(self, skipna=True, **k):
        v = self._valid()
        if v and builtins.all(_isboolish(x) for x in v):
            return _count(v)
        return np_.f_sum(v) if v else 0

    def count(self): return len(self._valid())

    def mean(self, skipna=True, **k):
        v = self._valid()
        return nan if not v else np_.f_sum(v) / len(v)

    def min(self, skipna=True, **k):
        v = self._valid()
        return nan if not v else np_.f_min(v)

    def max(self, skipna=True, **k):
        v = self._valid()
        return nan if not v else np_.f_max(v)

    def std(self, skipna=True, ddof=1, **k):
        v = self._valid()
        n = len(v)
        if n - ddof <= 0:
            return nan
        m = np_.f_sum(v) / n
        var = np_.f_sum([(x - m) * (x - m) for x in v]) / (n - ddof)
        return np_._sqrt(var)

    def any(self, **k): return np_.f_any(self.v)
    def all(self, **k): return np_.f_all(self.v)
    def unique(self): return np_.f_unique(self.v)
    def nunique(self): return len(np_.f_unique(self._valid()))

    def mode(self, dropna=True):
        v = self._valid()
        best, bc = [], 0
        for i, x in enumerate(v):
            if builtins.any(bool(sbool(x == y)) for y in v[:i]):
                continue
            c = builtins.sum(1 for y in v if bool(sbool(y == x)))
            if c > bc:
                best, bc = [x], c
            elif c == bc:
                best.append(x)
        return Series(np_._sorted(best))

    def argmin(self): return np_.f_argmin(self.v)
    def argmax(self): return np_.f_argmax(self.v)
    def idxmin(self): return self.index.l[np_.f_argmin(self.v)]
    def idxmax(self): return self.index.l[np_.f_argmax(self.v)]
    def head(self, n=5): return self._take(list(range(len(self.v)))[:n])
    def tail(self, n=5): return self._take(list(range(len(self.v)))[-n:] if n else [])
    def items(self): return iter(list(zip(self.index.l, self.v)))
    def median(self, **k):
        v = self._valid()
        return nan if not v else np_.f_percentile(v, 50)
    def cumsum(self, **k): return Series(np_.f_cumsum(self.v).d, self.index, self.name)
    def nlargest(self, n=5): return self.sort_values(ascending=False).head(n)
    def nsmallest(self, n=5): return self.sort_values().head(n)
    def between(self, lo, hi): return (self >= lo) & (self <= hi)

    def sort_values(self, ascending=True, **k):
        order = np_._insertion_order(self.v)
        if not ascending:
            order = order[::-1]
        return self._take(order)

    def reset_index(self, drop=False, **k):
        if not drop:
            raise ShimGap('Series.reset_index(drop=False)')
        return Series(list(self.v), None, self.name, self.dtype)

    def equals(self, o):
        raise ShimGap('Series.equals')

    def to_string(self, **k): return '<series>'

    @property
    def str(self): return _StrAcc(self)

    def __getattr__(self, n):
        if n.startswith('_') or n in ('v', 'index', 'name', 'dtype'):
            raise AttributeError(n)
        raise ShimGap('Series.' + n)

    def drop(self, labels=None, index=None, inplace=False, **kw):
        if kw:
            raise ShimGap('Series.drop(%s)' % ','.join(kw))
        labs = index if index is not None else labels
        if isinstance(labs, (Index, list, tuple, ndarray, Series)):
            labs = list(labs.l) if isinstance(labs, Index) else list(_flat(labs))
        else:
            labs = [labs]
        for l in labs:
            if not builtins.any(_lab_eq(l, x) for x in self.index.l):
                raise KeyError('%r not found in axis' % (l,))
        keep = [i for i, l in enumerate(self.index.l) if not builtins.any(_lab_eq(l, x) for x in labs)]
        if inplace:
            self.v = [self.v[i] for i in keep]
            self.index = Index([self.index.l[i] for i in keep])
            return None
        return self._take(keep)

    def duplicated(self, **kw):
        if kw:
            raise ShimGap('Series.duplicated(%s)' % ','.join(kw))
        out = []
        for i, x in enumerate(self.v):
            d = False
            for y in self.v[:i]:
                d = _or(d, _same_cell(x, y))
            out.append(d)
        return Series(out, self.index, None, bool)

    def drop_duplicates(self, **kw):
        if kw:
            raise ShimGap('drop_duplicates(%s)' % ','.join(kw))
        return self._take([i for i, b in enumerate(self.duplicated().v) if not bool(b)])

    def __deepcopy__(self, memo): return self.copy()
    def __repr__(self): return '<Series n=%d>' % len(self.v)

    def __array__(self, *a, **k):
        raise ShimGap('model Series handed to real numpy')


def _frag_slice(x, sl):
    """Slice a str that may hold formatted-symbolic-integer tokens; cutting through a token is a gap."""
    if x is None or (isinstance(x, float) and x != x):
        return x
    if not isinstance(x, str):
        raise AttributeError('Can only use .str accessor with string values')
    if core._TOK_L not in x:
        return x[sl]
    units = []
    for piece in core.decode_fragments(x):
        if isinstance(piece, str):
            units += list(piece)
        else:
            val, spec = piece
            if spec not in ('03', '03d'):
                raise ShimGap('slicing a formatted symbolic integer with spec %r' % spec)
            units += [('atom', piece, k) for k in range(3)]
    sel = units[sl]
    out, i = '', 0
    while i < len(sel):
        u = sel[i]
        if isinstance(u, builtins.str):
            out += u
            i += 1
            continue
        grp = sel[i:i + 3]
        if len(grp) == 3 and builtins.all(isinstance(g, tuple) and g[1] is u[1] for g in grp) and [g[2] for g in grp] == [0, 1, 2]:
            n = [k for k, a in enumerate(core.ENG.atoms) if a is u[1]][0]
            out += '%s%d%s' % (core._TOK_L, n, core._TOK_R)
            i += 3
        else:
            raise ShimGap('slice cuts through the digits of a formatted symbolic integer')
    return out


class _StrAcc:
    def __init__(self, s): self.s = s
    def __getitem__(self, k):
        if isinstance(k, slice):
            return self.s._map(lambda x: _frag_slice(x, k))
        raise ShimGap('Series.str[%r]' % (k,))
    def slice(self, start=None, stop=None, step=None): return self[slice(start, stop, step)]
    def len(self): raise ShimGap('Series.str.len')
    def __getattr__(self, n):
        if n.startswith('_') or n == 's':
            raise AttributeError(n)
        raise ShimGap('Series.str.' + n)


def _anyeq(x, vals):
    r = False
    for y in vals:
        r = _or(r, _cmp(x, y, 'eq'))
    return r


class _SLoc:
    def __init__(self, ser): self.s = ser

    def __getitem__(self, k):
        if isinstance(k, slice) and k == slice(None):
            return self.s
        if isinstance(k, (Index, list)) and not _is_boolmask(k):
            pos = []
            for l in (k.l if isinstance(k, Index) else k):
                hits = [i for i, x in enumerate(self.s.index.l) if _lab_eq(x, l)]
                if not hits:
                    raise KeyError(l)
                pos += hits
            return self.s._take(pos)
        return self.s[k]

    def __setitem__(self, k, val):
        if _is_boolmask(k):
            self.s[k] = val
            return
        hits = [i for i, x in enumerate(self.s.index.l) if _lab_eq(x, k)]
        if not hits:
            raise ShimGap('Series.loc enlargement')
        for i in hits:
            self.s.v[i] = val


class _SILoc:
    def __init__(self, ser): self.s = ser

    def __getitem__(self, k):
        if isinstance(k, slice):
            return self.s._take(list(range(len(self.s.v)))[k])
        k = operator_index(k)
        n = len(self.s.v)
        if k < -n or k >= n:
            raise IndexError('single positional indexer is out-of-bounds')
        return self.s.v[k]

    def __setitem__(self, k, val):
        k = operator_index(k)
        n = len(self.s.v)
        if k < -n or k >= n:
            raise IndexError('iloc cannot enlarge its target object')
        self.s.v[k] = val


class _Columns(list):
    _is_index = True
    @property
    def l(self): return list(self)

    def get_loc(self, k):
        if k not in self:
            raise KeyError(k)
        return self.index(k)

    def tolist(self): return list(self)
    to_list = tolist


class DataFrame:
    _is_frame = True

    def __init__(self, data=None, index=None, columns=None, dtype=None):
        self.cols = {}
        self.dtypes = {}
        if isinstance(data, DataFrame):
            for c, v in data.cols.items():
                self.cols[c] = list(v)
            self.dtypes = dict(data.dtypes)
            self.index = Index(list(data.index.l))
        elif isinstance(data, dict):
            n = None
            for k, v in data.items():
                if isinstance(v, Series):
                    self.dtypes[k] = v.dtype
                vals = list(_flat(v)) if not np_._scal(v) else None
                if vals is None:
                    raise ShimGap('DataFrame from dict of scalars')
                if n is not None and len(vals) != n:
                    raise ValueError('All arrays must be of the same length')
                self.cols[k] = vals
                n = len(vals)
            self.index = index if isinstance(index, Index) else Index(range(n or 0) if index is None else index)
            if len(self.index) != (n or 0) and self.cols:
                raise ValueError('Length of values does not match length of index')
        elif data is None:
            self.index = index if isinstance(index, Index) else Index([] if index is None else index)
            for c in (columns or []):
                self.cols[c] = [nan] * len(self.index)
        elif isinstance(data, (list, ndarray)):
            rows = data.tolist() if isinstance(data, ndarray) else [list(r) for r in data]
            self.index = index if isinstance(index, Index) else Index(range(len(rows)) if index is None else index)
            if columns is None:
                raise ShimGap('DataFrame from rows without column names')
            for j, c in enumerate(columns):
                self.cols[c] = [r[j] for r in rows]
        else:
            raise ShimGap('DataFrame(%r)' % (type(data),))

    @property
    def columns(self): return _Columns(self.cols.keys())
    @property
    def shape(self): return (len(self.index), len(self.cols))
    @property
    def empty(self): return len(self.index) == 0 or not self.cols
    def __len__(self): return len(self.index)
    def __contains__(self, k): return k in self.cols
    def __iter__(self): return iter(list(self.cols))
    def keys(self): return self.columns

    def __getattr__(self, n):
        if n.startswith('_') or n in ('cols', 'index', 'dtypes'):
            raise AttributeError(n)
        if n in self.__dict__.get('cols', {}):
            return self[n]
        raise ShimGap('DataFrame.' + n)

    def _take(self, pos):
        out = DataFrame({c: [v[i] for i in pos] for c, v in self.cols.items()},
                        Index([self.index.l[i] for i in pos]))
        out.dtypes = dict(self.dtypes)
        return out

    def _series(self, c):
        return Series(self.cols[c], self.index, c, self.dtypes.get(c))

    def __getitem__(self, k):
        if isinstance(k, str):
            if k not in self.cols:
                raise KeyError(k)
            return self._series(k)
        if isinstance(k, list) and builtins.all(isinstance(c, str) for c in k) and (k or not len(self)):
            for c in k:
                if c not in self.cols:
                    raise KeyError("%r not in index" % (c,))
            out = DataFrame({c: self.cols[c] for c in k}, self.index)
            out.dtypes = {c: self.dtypes.get(c) for c in k}
            return out
        if _is_boolmask(k) or (hasattr(k, '__len__') and len(k) == 0 and len(self) == 0):
            return self._take(_pos_from_mask(self.index, k))
        if hasattr(k, '__len__') and len(k) == 0:
            return self._take([])
        raise ShimGap('DataFrame[%r]' % (type(k),))

    def __setitem__(self, k, val):
        if not isinstance(k, str):
            raise ShimGap('DataFrame.__setitem__ key %r' % (type(k),))
        n = len(self.index)
        if isinstance(val, Series):
            if not val.index.same(self.index):
                # pandas reindexes the assigned Series onto the frame's index: needs unique *source* labels only
                if not val.index.unique_labels():
                    raise ValueError('cannot reindex on an axis with duplicate labels')
                vals = []
                for l in self.index.l:
                    hit = [v for ml, v in zip(val.index.l, val.v) if _lab_eq(ml, l)]
                    vals.append(hit[0] if hit else nan)
                self.cols[k] = vals
            else:
                self.cols[k] = list(val.v)
            self.dtypes[k] = val.dtype
        elif isinstance(val, (ndarray, list, tuple)):
            v = _flat(val)
            if len(v) != n:
                raise ValueError('Length of values (%d) does not match length of index (%d)' % (len(v), n))
            self.cols[k] = list(v)
            self.dtypes[k] = None
        else:
            self.cols[k] = [val] * n
            self.dtypes[k] = None

    @property
    def loc(self): return _Loc(self)
    @property
    def iloc(self): return _ILoc(self)
    @property
    def at(self): return _At(self)
    @property
    def iat(self): return _ILoc(self)
    @property
    def values(self): return self.to_numpy()

    def to_numpy(self, dtype=None, **k):
        cs = list(self.cols)
        out = ndarray([self.cols[c][i] for i in range(len(self.index)) for c in cs], (len(self.index), len(cs)))
        return out.astype(dtype) if dtype is not None else out

    def filter(self, items=None, like=None, regex=None, axis=None):
        import re
        if axis not in (None, 1, 'columns'):
            raise ShimGap('DataFrame.filter on rows')
        if items is not None:
            keep = [c for c in items if c in self.cols]
        elif like is not None:
            keep = [c for c in self.cols if like in c]
        elif regex is not None:
            keep = [c for c in self.cols if re.search(regex, c)]
        else:
            raise TypeError('Must pass either `items`, `like`, or `regex`')
        out = DataFrame({c: self.cols[c] for c in keep}, self.index)
        out.dtypes = {c: self.dtypes.get(c) for c in keep}
        return out

    def copy(self, deep=True): return self.__deepcopy__({})

    def groupby(self, by, sort=True, **k):
        """Only groupby(<one column of concrete keys>).size(): keys present, sorted, with their row counts."""
        if not isinstance(by, str) or by not in self.cols or not sort or k:
            raise ShimGap('DataFrame.groupby other than by one column name')
        keys = self.cols[by]
        if builtins.any(is_sym(x) or x is None or not isinstance(x, (str, int)) or (isinstance(x, str) and core._TOK_L in x) for x in keys):
            raise ShimGap('DataFrame.groupby on symbolic / missing keys')
        frame = self

        class _GroupBy:
            def size(self_):
                ks = sorted(set(keys))
                return Series([builtins.sum(1 for x in keys if x == q) for q in ks], Index(ks), None, int)

            def __getattr__(self_, n):
                raise ShimGap('DataFrameGroupBy.' + n)
        return _GroupBy()

    def drop(self, labels=None, axis=0, index=None, columns=None, inplace=False):
        if axis in (1, 'columns') or columns is not None:
            names = columns if columns is not None else labels
            names = [names] if isinstance(names, str) else list(names)
            for c in names:
                if c not in self.cols:
                    raise KeyError("%r not found in axis" % (c,))
            tgt = self if inplace else self.__deepcopy__({})
            for c in names:
                del tgt.cols[c]
                tgt.dtypes.pop(c, None)
            return None if inplace else tgt
        labs = index if index is not None else labels
        if isinstance(labs, (Index, list, tuple, ndarray, Series)):
            labs = list(labs.l) if isinstance(labs, Index) else list(_flat(labs))
        else:
            labs = [labs]
        for l in labs:
            if not builtins.any(_lab_eq(l, x) for x in self.index.l):
                raise KeyError('%r not found in axis' % (l,))
        keep = [i for i, l in enumerate(self.index.l) if not builtins.any(_lab_eq(l, x) for x in labs)]
        if inplace:
            for c in self.cols:
                self.cols[c] = [self.cols[c][i] for i in keep]
            self.index = Index([self.index.l[i] for i in keep])
            return None
        return self._take(keep)

    def sort_values(self, by, inplace=False, ascending=True, **kw):
        keys = list(by) if isinstance(by, (list, tuple)) else [by]
        for k in keys:
            if k not in self.cols:
                raise KeyError(k)
        if not isinstance(ascending, bool):
            raise ShimGap('sort_values with per-key ascending')
        # lexicographic order = successive stable sorts, last key first
        order = list(range(len(self.index)))
        for k in reversed(keys):
            sub = np_._insertion_order([self.cols[k][i] for i in order])
            order = [order[j] for j in sub]
        if not ascending:
            order = order[::-1]
        if inplace:
            for c in self.cols:
                self.cols[c] = [self.cols[c][i] for i in order]
            self.index = Index([self.index.l[i] for i in order])
            return None
        return self._take(order)

    def reset_index(self, drop=False, inplace=False):
        if not drop:
            raise ShimGap('reset_index(drop=False)')
        if inplace:
            self.index = Index(range(len(self.index)))
            return None
        out = self._take(list(range(len(self.index))))
        out.index = Index(range(len(self.index)))
        return out

    def duplicated(self, **kw):
        if kw:
            raise ShimGap('duplicated(%s)' % ','.join(kw))
        rows = [[self.cols[c][i] for c in self.cols] for i in range(len(self.index))]
        out = []
        for i, r in enumerate(rows):
            d = False
            for q in rows[:i]:
                e = True
                for a, b in zip(r, q):
                    e = _and(e, _same_cell(a, b))
                d = _or(d, e)
            out.append(d)
        return Series(out, self.index, None, bool)

    def drop_duplicates(self, subset=None, **kw):
        if kw:
            raise ShimGap('drop_duplicates(%s)' % ','.join(kw))
        src = self if subset is None else self[[subset] if isinstance(subset, str) else list(subset)]
        return self._take([i for i, b in enumerate(src.duplicated().v) if not bool(b)])

    def value_counts(self, subset=None, sort=True, dropna=True, **kw):
        if kw or subset is not None or not dropna:
            raise ShimGap('value_counts with options')
        rows = [[self.cols[c][i] for c in self.cols] for i in range(len(self.index))]
        rows = [r for r in rows if not builtins.any(bool(_isnull(x)) for x in r)]      # dropna=True
        groups = []
        for r in rows:
            for g in groups:
                e = True
                for a, b in zip(r, g[0]):
                    e = _and(e, _same_cell(a, b))
                if bool(e):
                    g[1] += 1
                    break
            else:
                groups.append([r, 1])
        if sort:
            groups.sort(key=lambda g: -g[1])
        return Series([g[1] for g in groups], Index([tuple(g[0]) for g in groups]), 'count', int)

    def merge(self, o, how='inner', on=None):
        if how != 'inner' or on is None:
            raise ShimGap('merge(how=%r)' % (how,))
        on = [on] if isinstance(on, str) else list(on)
        rows = []
        for i in range(len(self.index)):
            for j in range(len(o.index)):
                e = True
                for c in on:
                    e = _and(e, _same_cell(self.cols[c][i], o.cols[c][j]))
                if bool(e):
                    rows.append((i, j))
        out = DataFrame({c: [self.cols[c][i] for i, _ in rows] for c in self.cols}, None)
        for c in o.cols:
            if c not in on:
                out.cols[c + ('_y' if c in self.cols else '')] = [o.cols[c][j] for _, j in rows]
        return out

    def astype(self, t):
        if isinstance(t, dict):
            out = self.__deepcopy__({})
            for c, tt in t.items():
                out[c] = out[c].astype(tt)
            return out
        raise ShimGap('DataFrame.astype(non-dict)')

    def to_string(self, index=True, **k): return '<frame>'
    def head(self, n=5): return self._take(list(range(len(self.index)))[:n])
    def tail(self, n=5): return self._take(list(range(len(self.index)))[-n:] if n else [])

    def iterrows(self):
        for i, l in enumerate(self.index.l):
            yield l, Series([self.cols[c][i] for c in self.cols], Index(list(self.cols)))

    def itertuples(self, index=True, name=None):
        for i, l in enumerate(self.index.l):
            row = tuple(self.cols[c][i] for c in self.cols)
            yield ((l,) + row) if index else row

    def items(self): return iter([(c, self._series(c)) for c in self.cols])

    def __deepcopy__(self, memo):
        out = DataFrame({c: list(v) for c, v in self.cols.items()}, Index(list(self.index.l)))
        out.dtypes = dict(self.dtypes)
        return out

    def equals(self, o):
        raise ShimGap('DataFrame.equals')

    def __repr__(self): return '<DataFrame %dx%d>' % (len(self.index), len(self.cols))

    def __array__(self, *a, **k):
        raise ShimGap('model DataFrame handed to real numpy')


def _same_cell(a, b):
    if isinstance(a, str) or isinstance(b, str) or a is None or b is None:
        return a == b if (isinstance(a, str) and isinstance(b, str)) else (a is None and b is None)
    return _same(a, b)


class _Loc:
    def __init__(self, df): self.df = df

    def _rows(self, r):
        df = self.df
        if isinstance(r, slice):
            if r == slice(None):
                return list(range(len(df.index)))
            raise ShimGap('loc with a label slice')
        if _is_boolmask(r):
            return _pos_from_mask(df.index, r)
        if isinstance(r, (Index, list, ndarray, Series, tuple)):
            labs = list(r.l) if isinstance(r, Index) else list(_flat(r))
            out = []
            for l in labs:
                hits = [i for i, x in enumerate(df.index.l) if _lab_eq(x, l)]
                if not hits:
                    raise KeyError('%r not in index' % (l,))
                out += hits
            return out
        hits = [i for i, x in enumerate(df.index.l) if _lab_eq(x, r)]
        if not hits:
            raise KeyError(r)
        return ('scalar', hits)

    def __getitem__(self, k):
        if not isinstance(k, tuple):
            rows = self._rows(k)
            if isinstance(rows, tuple):
                if len(rows[1]) == 1:
                    i = rows[1][0]
                    return Series([self.df.cols[c][i] for c in self.df.cols], Index(list(self.df.cols)))
                rows = rows[1]
            return self.df._take(rows)
        r, c = k
        rows = self._rows(r)
        if isinstance(rows, tuple):
            if isinstance(c, list):
                raise ShimGap('loc[scalar, list]')
            if c not in self.df.cols:
                raise KeyError(c)
            if len(rows[1]) != 1:
                return Series([self.df.cols[c][i] for i in rows[1]], Index([self.df.index.l[i] for i in rows[1]]), c)
            return self.df.cols[c][rows[1][0]]
        if isinstance(c, slice) and c == slice(None):
            return self.df._take(rows)
        if isinstance(c, slice):
            # label slice over the columns: both ends included, in the frame's column order
            names = list(self.df.cols)
            if c.step is not None:
                raise ShimGap('loc column slice with a step')
            i0 = names.index(c.start) if c.start is not None else 0
            i1 = names.index(c.stop) if c.stop is not None else len(names) - 1
            c = names[i0:i1 + 1]
        if isinstance(c, list):
            for x in c:
                if x not in self.df.cols:
                    raise KeyError(x)
            out = DataFrame({x: [self.df.cols[x][i] for i in rows] for x in c},
                            Index([self.df.index.l[i] for i in rows]))
            out.dtypes = {x: self.df.dtypes.get(x) for x in c}
            return out
        if c not in self.df.cols:
            raise KeyError(c)
        return Series([self.df.cols[c][i] for i in rows], Index([self.df.index.l[i] for i in rows]), c,
                      self.df.dtypes.get(c))

    def __setitem__(self, k, val):
        if not isinstance(k, tuple):
            raise ShimGap('loc[rows] = value')
        r, c = k
        rows = self._rows(r)
        if isinstance(rows, tuple):
            rows = rows[1]
        cs = c if isinstance(c, list) else [c]
        for col in cs:
            if col not in self.df.cols:
                if len(self.df.index) == 0 and isinstance(r, slice) and not isinstance(c, list) \
                        and not isinstance(val, (Series, ndarray, list, tuple)):
                    # pandas refuses to create a column from a scalar on a frame without rows
                    raise ValueError('cannot set a frame with no defined index and a scalar')
                self.df.cols[col] = [nan] * len(self.df.index)
                self.df.dtypes[col] = None
            if isinstance(val, Series):
                if len(val.v) != len(rows):
                    raise ValueError('cannot set using a list-like indexer with a different length than the value')
                lab = [self.df.index.l[i] for i in rows]
                if not (len(val.index.l) == len(lab) and builtins.all(_plain_eq(a, b) for a, b in zip(val.index.l, lab))):
                    if not (val.index.unique_labels() and builtins.all(l in val.index for l in lab)):
                        raise ShimGap('loc assignment of a Series needing alignment')
                    vv = [val.v[val.index.get_loc(l)] for l in lab]
                else:
                    vv = val.v
                for i, x in zip(rows, vv):
                    self.df.cols[col][i] = x
            elif isinstance(val, (ndarray, list, tuple)):
                v = _flat(val)
                if len(v) == 1 and len(rows) != 1:
                    v = v * len(rows)
                if len(v) != len(rows):
                    raise ValueError('Must have equal len keys and value when setting with an iterable')
                for i, x in zip(rows, v):
                    self.df.cols[col][i] = x
            else:
                for i in rows:
                    self.df.cols[col][i] = val


def _chk(i, n):
    if i < -n or i >= n:
        raise IndexError('single positional indexer is out-of-bounds')
    return i % n if n else i


class _ILoc:
    def __init__(self, df): self.df = df

    def __getitem__(self, k):
        if isinstance(k, tuple):
            i, j = k
            if isinstance(i, slice) or isinstance(j, slice):
                raise ShimGap('iloc with slices')
            i = _chk(operator_index(i), len(self.df.index))
            j = _chk(operator_index(j), len(self.df.cols))
            return self.df.cols[list(self.df.cols)[j]][i]
        if isinstance(k, slice):
            return self.df._take(list(range(len(self.df.index)))[k])
        if isinstance(k, (list, ndarray)):
            return self.df._take([_chk(operator_index(i), len(self.df.index)) for i in _flat(k)])
        i = _chk(operator_index(k), len(self.df.index))
        return Series([self.df.cols[c][i] for c in self.df.cols], Index(list(self.df.cols)))

    def __setitem__(self, k, val):
        if not isinstance(k, tuple):
            raise ShimGap('iloc[row] = value')
        i, j = k
        i = operator_index(i)
        j = operator_index(j)
        n, m = len(self.df.index), len(self.df.cols)
        if i < -n or i >= n or j < -m or j >= m:
            raise IndexError('iloc cannot enlarge its target object')
        self.df.cols[list(self.df.cols)[j % m]][i % n] = val


class _At:
    def __init__(self, df): self.df = df

    def _pos(self, r):
        hits = [i for i, x in enumerate(self.df.index.l) if _lab_eq(x, r)]
        if not hits:
            raise KeyError(r)
        if len(hits) != 1:
            raise ShimGap('.at on a repeated label')
        return hits[0]

    def __getitem__(self, k):
        r, c = k
        if c not in self.df.cols:
            raise KeyError(c)
        return self.df.cols[c][self._pos(r)]

    def __setitem__(self, k, v):
        r, c = k
        if c not in self.df.cols:
            raise ShimGap('.at enlargement (new column)')
        self.df.cols[c][self._pos(r)] = v


def concat(frames, ignore_index=False, **kw):
    frames = list(frames)
    cols = list(frames[0].cols)
    out = DataFrame({c: [x for f in frames for x in f.cols[c]] for c in cols},
                    None if ignore_index else Index([l for f in frames for l in f.index.l]))
    out.dtypes = dict(frames[0].dtypes)
    return out


def isna(x):
    if isinstance(x, Series):
        return x.isna()
    return _isnull(x)


def install():
    m = _Gap('pandas')
    m.DataFrame = DataFrame
    m.Series = Series
    m.Index = Index
    m.StringDtype = StringDtype
    m.concat = concat
    m.isna = isna
    m.isnull = isna
    m.NA = None
    m.api = types.SimpleNamespace(types=_ApiTypes)
    m.__version__ = 'model'
    sys.modules['pandas'] = m
    return m
