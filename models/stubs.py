"""Environment stubs for scikit-learn and statsmodels (the three numerical procedures).

Modes (module variable MODE):
  'nondet'   - symbolic engine: arbitrary answers within the documented contract (forks / fresh reals)
  'scripted' - concrete co-simulation: answers replayed from a log recorded in the real world
"""
import sys, types
import z3
from symex import core
from symex.core import SymFloat, SymInt, SymBool, ShimGap, sbool
from models import npmodel as np_
from models.npmodel import ndarray

def _np():
    return sys.modules['numpy']


def A(vals, shape=None):
    """Array in the current world (model ndarray in the shim world, real numpy otherwise)."""
    if isinstance(_np(), types.ModuleType) and getattr(_np(), '__version__', '') == 'model':
        return ndarray(vals, shape)
    a = _np().array(vals)
    return a.reshape(shape) if shape is not None else a


def flat(X):
    if isinstance(X, ndarray) or hasattr(X, '_is_series'):
        return np_._flat(X)
    if hasattr(X, 'tolist'):
        X = X.tolist()
    out = []
    for x in (X if isinstance(X, (list, tuple)) else [X]):
        if isinstance(x, (list, tuple)):
            out.extend(flat(x))
        else:
            out.append(x)
    return out


MODE = 'nondet'
SCRIPT = []          # for 'scripted'
OPTIONS = {
    'renumber': False,       # arbitrary bijection of cluster labels (k! factor)
    'single_exact': True,    # exact characterisation of single-linkage/euclidean clustering
    'gmm': None,             # callable(n_components, X, kind) for harness-specific mixture stubs
}
CALLS = []           # log of stub calls of the current path (C09 monitor etc.)
ASSUMPTIONS = set()


MEMO = {}            # per path: stub answers keyed by the argument terms (determinism of the libraries)


KEEP = []            # terms used in memo keys are kept alive: z3 reuses the ids of freed terms


def reset_path():
    del CALLS[:]
    MEMO.clear()
    del KEEP[:]


def _key(x):
    if isinstance(x, SymFloat):
        if getattr(x, 'v', None) is None:
            return ('inf', x.pos)
        a, b = z3.simplify(x.n), z3.simplify(x.v)
        KEEP.extend((a, b))
        return ('F', a.get_id(), b.get_id())
    if isinstance(x, SymInt):
        a = z3.simplify(x.e)
        KEEP.append(a)
        return ('I', a.get_id())
    if isinstance(x, SymBool):
        KEEP.append(x.e)
        return ('B', x.e.get_id())
    if isinstance(x, float):
        return ('f', repr(float(x)))
    if type(x).__name__ in ('float64', 'int64'):
        return _key(x.item())
    if hasattr(x, 'tolist') and not isinstance(x, ndarray):
        return ('A', tuple(_key(i) for i in flat(x)))
    if isinstance(x, (list, tuple)):
        return tuple(_key(i) for i in x)
    if isinstance(x, ndarray):
        return ('A', x.shape, tuple(_key(i) for i in x.d))
    return ('c', repr(x))


def _nxt(kind):
    e = SCRIPT.pop(0)
    assert e['kind'] == kind, (e['kind'], kind)
    return e


def _has_nan(X):
    for x in flat(X):
        if bool(core.isnan(x)):
            return True
    return False


def partition_labels(n, label, renumber=None):
    """Arbitrary partition of n items (restricted growth string), optionally renumbered."""
    eng = core.ENG
    labs, k = [0], 1
    for i in range(1, n):
        c = eng.stub_choose(k + 1, '%s.p%d' % (label, i))
        labs.append(c)
        k = max(k, c + 1)
    if (OPTIONS['renumber'] if renumber is None else renumber) and k > 1:
        perm = list(range(k))
        out = []
        for j in range(k - 1):
            c = eng.stub_choose(len(perm), '%s.r%d' % (label, j))
            out.append(perm.pop(c))
        out.append(perm[0])
        labs = [out[x] for x in labs]
    return labs, k


class AgglomerativeClustering:
    def __init__(self, n_clusters=2, *, metric='euclidean', linkage='ward', distance_threshold=None, **kw):
        self.n_clusters = n_clusters
        self.metric = metric
        self.linkage = linkage
        self.distance_threshold = distance_threshold
        self.kw = kw
        if kw:
            raise ShimGap('AgglomerativeClustering(%s)' % ','.join(kw))

    def fit(self, X):
        n = len(X)
        CALLS.append(('agg', self.linkage, self.metric, n))
        if MODE == 'scripted':
            if n < 2:
                raise ValueError('Found array with %d sample(s) (shape=(%d, 2)) while a minimum of 2 is required '
                                 'by AgglomerativeClustering.' % (n, n))
            e = _nxt('agg')
            assert e['n'] == n, (e['n'], n)
            self.labels_ = A(e['labels'])
            self.n_clusters_ = e['k']
            return self
        if n < 2:
            raise ValueError('Found array with %d sample(s) (shape=(%d, 2)) while a minimum of 2 is required '
                             'by AgglomerativeClustering.' % (n, n))
        if _has_nan(X):
            raise ValueError('Input X contains NaN.')
        if (self.n_clusters is None) == (self.distance_threshold is None):
            raise ValueError('Exactly one of n_clusters and distance_threshold has to be set, and the other '
                             'needs to be None.')
        if self.n_clusters is not None:
            raise ShimGap('AgglomerativeClustering with n_clusters')
        if self.linkage not in ('ward', 'complete', 'average', 'single'):
            raise ValueError("The 'linkage' parameter of AgglomerativeClustering must be a str among "
                             "{'average', 'ward', 'complete', 'single'}. Got %r instead." % (self.linkage,))
        if not isinstance(self.metric, str) or self.metric not in (
                'euclidean', 'manhattan', 'cityblock', 'l1', 'l2', 'cosine', 'precomputed'):
            raise ValueError("The 'metric' parameter of AgglomerativeClustering is invalid: %r" % (self.metric,))
        key = ('agg', self.linkage, self.metric, _key(self.distance_threshold), _key(X))
        if key in MEMO:
            labs, k = MEMO[key]
        elif self.linkage == 'single' and self.metric == 'euclidean' and OPTIONS['single_exact']:
            labs, k = _single_linkage(X, self.distance_threshold)
        else:
            ASSUMPTIONS.add('AgglomerativeClustering(%s,%s): arbitrary partition of the samples' % (self.linkage, self.metric))
            labs, k = partition_labels(n, 'agg')
        MEMO[key] = (list(labs), k)
        self.labels_ = A(labs)
        self.n_clusters_ = k
        return self


def _single_linkage(X, thr):
    """Connected components of the graph 'euclidean distance < threshold' (exact for single linkage)."""
    ASSUMPTIONS.add('AgglomerativeClustering(single,euclidean): samples share a label iff connected by '
                    'pairs closer than distance_threshold')
    pts = X.tolist()
    n = len(pts)
    thr = thr if core.is_sym(thr) else float(thr)
    parent = list(range(n))

    def find(i):
        while parent[i] != i:
            i = parent[i]
        return i
    for i in range(n):
        for j in range(i):
            if find(i) == find(j):
                continue
            dx = pts[i][0] - pts[j][0]
            dy = pts[i][1] - pts[j][1]
            if bool(sbool(dx * dx + dy * dy < thr * thr)):
                parent[find(i)] = find(j)
    roots = []
    labs = []
    for i in range(n):
        r = find(i)
        if r not in roots:
            roots.append(r)
        labs.append(roots.index(r))
    k = len(roots)
    if OPTIONS['renumber'] and k > 1:
        eng = core.ENG
        perm = list(range(k))
        out = []
        for j in range(k - 1):
            c = eng.stub_choose(len(perm), 'agg.r%d' % j)
            out.append(perm.pop(c))
        out.append(perm[0])
        labs = [out[x] for x in labs]
    return labs, k


class GaussianMixture:
    def __init__(self, n_components=1, *, covariance_type='full', random_state=None, **kw):
        self.n = np_.operator_index(n_components) if core.is_sym(n_components) else int(n_components)
        self.covariance_type = covariance_type
        self.random_state = random_state
        CALLS.append(('gmm_init', self.n, covariance_type, random_state))

    def fit(self, X):
        n = len(X)
        CALLS.append(('gmm_fit', self.n, n))
        if n < self.n:
            raise ValueError('Expected n_samples >= n_components but got n_components = %d, n_samples = %d'
                             % (self.n, n))
        if MODE != 'scripted' and _has_nan(X):
            raise ValueError('Input X contains NaN.')
        self._X = X
        self._memo = {}
        # a generator object is consumed by the fit (and shared with every other estimator holding it)
        rs = self.random_state
        if getattr(rs, '_is_model_rs', False):
            self._rs = ('generator',) + rs.take()
        elif hasattr(rs, 'get_state') and hasattr(rs, 'random_sample'):
            # replay world: a real numpy generator. scikit-learn's fit draws from the object it is given
            # (check_random_state returns it as is), so the estimator sees its current state and advances it.
            st = rs.get_state()
            self._rs = ('generator', hash(st[1].tobytes()), int(st[2]))
            rs.random_sample()
        else:
            self._rs = None
        CALLS.append(('gmm_fit_rs', self.n, self._rs))
        return self

    def _answer(self, kind, X):
        if MODE == 'scripted':
            e = _nxt('gmm_' + kind)
            if kind != 'predict':
                return e['val']
            # predict is a function of the sample value: look the recorded label up by value, so that
            # the replay does not depend on the order of tied time stamps (unstable sort in the real world)
            xs = flat(X)
            assert len(xs) == len(e['x']), (len(xs), len(e['x']))
            out = []
            for x in xs:
                j = min(range(len(e['x'])), key=lambda i: abs(e['x'][i] - x))
                assert abs(e['x'][j] - x) <= 1e-9 * max(1.0, abs(x)), (x, e['x'][j])
                out.append(e['labels'][j])
            return A(out)
        # deterministic library: same (n, samples, random_state) -> same answers, also across estimator objects
        key = ('gmm', self.n, kind, _key(self.random_state) if core.is_sym(self.random_state) else
               repr(self._rs if getattr(self, '_rs', None) is not None else self.random_state), _key(X))
        if key not in MEMO:
            if OPTIONS['gmm'] is None:
                raise ShimGap('GaussianMixture reached without a harness-specific stub')
            MEMO[key] = OPTIONS['gmm'](self.n, X, kind)
        v = MEMO[key]
        return v.copy() if hasattr(v, 'copy') else v

    def predict(self, X):
        CALLS.append(('gmm_predict', self.n))
        return self._answer('predict', X)
    def bic(self, X): return self._answer('bic', X)
    def aic(self, X): return self._answer('aic', X)


def lowess(endog, exog, frac=2.0 / 3.0, it=3, delta=0.0, xvals=None, is_sorted=False, missing='drop',
           return_sorted=True):
    y, x = flat(endog), flat(exog)
    CALLS.append(('lowess', len(y)))
    if MODE == 'scripted':
        e = _nxt('lowess')
        assert e['n'] == len(y), (e['n'], len(y))
        return A([v for r in e['out'] for v in r], (len(e['out']), 2))
    if not (is_sorted and return_sorted):
        raise ShimGap('lowess without is_sorted/return_sorted')
    ASSUMPTIONS.add('lowess: returns an N x 2 array, first column the given x, second column arbitrary finite reals')
    ASSUMPTIONS.add('all three numerical procedures are deterministic: equal arguments give equal answers')
    eng = core.ENG
    key = ('lowess', _key(frac), _key(it), _key(y), _key(x))
    if key not in MEMO:
        MEMO[key] = [eng.stub_real('lowess') for _ in range(len(y))]
    out = []
    for i in range(len(y)):
        out += [x[i], MEMO[key][i]]
    return A(out, (len(y), 2))


def install():
    def mk(name, **kw):
        m = types.ModuleType(name)
        m.__dict__.update(kw)
        sys.modules[name] = m
        return m
    sk = mk('sklearn', __version__='model')
    sk.cluster = mk('sklearn.cluster', AgglomerativeClustering=AgglomerativeClustering)
    sk.mixture = mk('sklearn.mixture', GaussianMixture=GaussianMixture)
    sm = mk('statsmodels', __version__='model')
    api = mk('statsmodels.api')
    api.nonparametric = types.SimpleNamespace(lowess=lowess)
    sm.api = api


def install_scripted_real():
    """Real world, scripted replay: the real ampycloud code and the real numpy/pandas, but the three numerical
    procedures answer what the solver's counterexample says (names stub:* of the model)."""
    global MODE
    MODE = 'nondet'
    from ampycloud import cluster, layer, fluffer
    cluster.AgglomerativeClustering = AgglomerativeClustering
    layer.GaussianMixture = GaussianMixture
    fluffer.sm = types.SimpleNamespace(nonparametric=types.SimpleNamespace(lowess=lowess))
