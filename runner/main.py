"""Driver of one property check.

  .venv/bin/python runner/main.py <ID> [--tier quick|thorough] [--src DIR] [--jobs N] [--only HARNESS]
                                       [--no-validate] [--budget SECONDS]

Exit 0: every path of every harness discharged (unsat), every cover goal met, model validation ok.
Exit 1: a counterexample was found AND reproduced against the real code with the real libraries
        (line "VIOLATION property=<id> replay=<path>").
Exit 2: inconclusive (solver unknown, model gap, unmet cover goal, budget exhausted, counterexample
        that does not reproduce in the real world = "UNCONFIRMED").
"""
import sys, os, json, time, importlib, subprocess, hashlib, argparse, traceback
import multiprocessing as mp

ROOT = os.path.dirname(os.path.dirname(os.path.abspath(__file__)))
sys.path.insert(0, ROOT)
PY = os.path.join(ROOT, '.venv', 'bin', 'python')


# ------------------------------------------------------------------------------------ worker side
_W = {}


def _worker_init(src, mpl):
    import warnings
    warnings.simplefilter('ignore')
    from symex import world
    world.enter_shim(src, matplotlib=mpl)
    _W['src'] = src


def _collect_functions(fn, eng):
    """Run fn once with a profiler to list the repo functions it executes."""
    seen = {}
    src = os.path.realpath(_W['src'])

    def prof(frame, event, arg):
        if event == 'call':
            co = frame.f_code
            f = co.co_filename
            if f.startswith(src):
                seen[(os.path.relpath(f, src), co.co_qualname if hasattr(co, 'co_qualname') else co.co_name,
                      co.co_firstlineno)] = 1
    return prof, seen


def run_task(task):
    """Explore (part of) one harness at one size. Returns a picklable result dict."""
    import warnings
    warnings.simplefilter('ignore')
    from symex import core
    from models import stubs
    t0 = time.time()
    mod = importlib.import_module('harness.' + task['module'])
    h = mod.get_harness(task['harness'])
    size = tuple(task['size'])
    eng = core.SymEngine(query_timeout_ms=task.get('query_timeout_ms', 120000), logic=h.logic)
    eng.max_cex = task.get('max_cex', 1)
    core.set_engine(eng)
    stubs.MODE = 'nondet'
    stubs.ASSUMPTIONS.clear()
    res = {'task': {k: task[k] for k in ('module', 'harness', 'size')}, 'status': None}
    functions = {}

    def fn(e):
        stubs.reset_path()
        return h.fn(e, *size)

    deadline = t0 + task.get('slice_s', 30)
    try:
        if task.get('profile'):
            prof, functions = _collect_functions(fn, eng)
            # profile only the first path: wrap fn once
            state = {'first': True}
            inner = fn

            def fn(e):  # noqa: F811
                if state['first']:
                    state['first'] = False
                    sys.setprofile(prof)
                    try:
                        return inner(e)
                    finally:
                        sys.setprofile(None)
                return inner(e)
        status = eng.explore(fn, prefixes=task.get('prefixes'), deadline=deadline)
        res['status'] = status
    except core.ShimGap as e:
        res['status'] = 'gap'
        res['detail'] = 'ShimGap: %s\n%s' % (e, ''.join(traceback.format_tb(e.__traceback__)[-4:]))
        eng.frontier = []
    except core.Inconclusive as e:
        res['status'] = 'unknown'
        res['detail'] = 'Inconclusive: %s' % (e,)
        eng.frontier = []
    except RecursionError as e:
        res['status'] = 'gap'
        res['detail'] = 'RecursionError'
        eng.frontier = []
    res['stats'] = eng.stats()
    res['cover'] = dict(eng.cover_goals)
    res['cex'] = eng.cex
    res['frontier'] = [list(p) for p in getattr(eng, 'frontier', [])]
    res['samples'] = eng.samples
    res['assumptions'] = sorted(stubs.ASSUMPTIONS | eng.assumption_log)
    res['functions'] = sorted('%s:%s:%d' % k for k in functions)
    res['wall_s'] = time.time() - t0
    return res


# ------------------------------------------------------------------------------------ master side
def model_validation(src, tier, seed):
    """Co-simulation of the models against the real libraries (cached per source+model digest)."""
    from symex import world
    dig, _ = world.source_digest(src)
    h = hashlib.sha1(dig.encode())
    for d in ('models', 'symex', 'validate'):
        for f in sorted(os.listdir(os.path.join(ROOT, d))):
            if f.endswith('.py'):
                h.update(open(os.path.join(ROOT, d, f), 'rb').read())
    which = 'all' if tier == 'thorough' else ','.join(str((seed + k * 5) % 20) for k in range(4)) + ',17,18,19'
    key = h.hexdigest()[:16] + '-' + hashlib.sha1(which.encode()).hexdigest()[:6]
    cdir = os.path.join(ROOT, '.cache')
    os.makedirs(cdir, exist_ok=True)
    cfile = os.path.join(cdir, 'cosim-%s.json' % key)
    lock = cfile + '.lock'
    import fcntl
    with open(lock, 'w') as lf:
        fcntl.flock(lf, fcntl.LOCK_EX)
        if os.path.exists(cfile):
            return json.load(open(cfile))
        t0 = time.time()
        rec = os.path.join(cdir, 'rec-%s.json' % key)
        r1 = subprocess.run([PY, os.path.join(ROOT, 'validate', 'record.py'), src, rec, which],
                            capture_output=True, text=True)
        ok, detail, n = False, '', 0
        ru = subprocess.run([PY, os.path.join(ROOT, 'validate', 'unit.py')], capture_output=True, text=True)
        if ru.returncode != 0:
            out = {'ok': False, 'scenes': 0, 'which': which, 'detail': 'differential unit tests of the models failed: ' + ru.stdout[-1500:],
                   'wall_s': round(time.time() - t0, 1)}
            json.dump(out, open(cfile, 'w'))
            return out
        if r1.returncode == 0:
            r2 = subprocess.run([PY, os.path.join(ROOT, 'validate', 'cosim.py'), src, rec],
                                capture_output=True, text=True)
            ok = r2.returncode == 0
            lines = [l for l in r2.stdout.splitlines() if l.startswith('COSIM')]
            n = len(lines)
            detail = '\n'.join(l for l in lines if 'DIFF' in l)[:2000] + (r2.stderr[-1500:] if not ok else '')
        else:
            detail = 'recorder failed: ' + r1.stderr[-1500:]
        try:
            os.remove(rec)
        except OSError:
            pass
        out = {'ok': ok, 'scenes': n, 'which': which, 'detail': detail, 'unit_tests': ru.stdout.strip().splitlines()[-1] if ru.stdout.strip() else '',
               'wall_s': round(time.time() - t0, 1)}
        json.dump(out, open(cfile, 'w'))
        return out


def replay_real(src, module, harness, size, inputs, tag, scripted=False):
    """Replay a counterexample in the real world. Returns (confirmed, report dict)."""
    os.makedirs(os.path.join(ROOT, 'replays'), exist_ok=True)
    case = {'module': module, 'harness': harness, 'size': list(size), 'inputs': inputs}
    digest = hashlib.sha1(json.dumps(case, sort_keys=True).encode()).hexdigest()[:10]
    path = os.path.join(ROOT, 'replays', '%s-%s.json' % (tag, digest))
    json.dump(case, open(path, 'w'), indent=1)
    def once(extra):
        r = subprocess.run([PY, os.path.join(ROOT, 'runner', 'replay.py'), '--src', src] + extra + [path],
                           capture_output=True, text=True)
        rep = None
        for l in r.stdout.splitlines():
            if l.startswith('REPLAY-RESULT '):
                rep = json.loads(l[len('REPLAY-RESULT '):])
        if rep is None:
            rep = {'error': (r.stdout[-800:] + r.stderr[-1500:])}
        return rep
    rep = once([])
    if not rep.get('failed') and scripted and any(k.startswith(('stub:', 'ch:stub:')) for k in inputs):
        # second attempt: real code, real numpy/pandas, the library answers of the counterexample
        rep2 = once(['--scripted'])
        rep2['with_real_libraries'] = rep
        rep = rep2
    case['replay'] = rep
    json.dump(case, open(path, 'w'), indent=1)
    return bool(rep.get('failed')), rep, path


def main(argv=None):
    ap = argparse.ArgumentParser()
    ap.add_argument('prop')
    ap.add_argument('--tier', default=os.environ.get('VERIF_TIER', 'quick'))
    ap.add_argument('--src', default='/repo/src')
    ap.add_argument('--jobs', type=int, default=int(os.environ.get('VERIF_JOBS', '0')) or min(16, os.cpu_count() or 4))
    ap.add_argument('--only', default=None)
    ap.add_argument('--no-validate', action='store_true')
    ap.add_argument('--budget', type=float, default=None)
    ap.add_argument('--evidence', default=None)
    ap.add_argument('--replay', default=None)
    a = ap.parse_args(argv)
    pid = a.prop.upper()
    seed = int(os.environ.get('VERIF_SEED', '0') or 0)
    t0 = time.time()
    if a.replay:
        r = subprocess.run([PY, os.path.join(ROOT, 'runner', 'replay.py'), '--src', a.src, a.replay])
        return r.returncode
    mod = importlib.import_module('harness.' + pid.lower())
    spec = mod.SPEC
    tier = a.tier if a.tier in ('quick', 'thorough') else 'quick'
    budget = a.budget or spec.get('budget_s', {}).get(tier, 900 if tier == 'quick' else 3600)
    harnesses = [h for h in mod.HARNESSES if (a.only is None or h.name == a.only)]
    evidence_file = a.evidence or os.path.join(ROOT, 'evidence', '%s.json' % pid)

    # known findings
    kf = json.load(open(os.path.join(ROOT, 'known_findings.json')))
    known = [k for k in kf.get('known', []) if k['property'] == pid]
    known_lines = []
    stale = []
    for k in known:
        r = subprocess.run([PY, os.path.join(ROOT, 'realworld', 'defects.py'), '--src', a.src, k['demo']],
                           capture_output=True, text=True)
        if ' REPRODUCED ' in r.stdout:
            known_lines.append('KNOWN-FINDING: property=%s %s' % (pid, k['what']))
        else:
            stale.append(k['id'])
            sys.stderr.write('note: known finding %s no longer reproduces (stale entry ignored)\n' % k['id'])
    for l in known_lines:
        print(l)

    # queue of tasks
    tasks = []
    for h in harnesses:
        for size in h.sizes(tier):
            tasks.append({'module': pid.lower(), 'harness': h.name, 'size': list(size), 'prefixes': None,
                          'slice_s': h.slice_s, 'profile': True, 'max_cex': 1,
                          'query_timeout_ms': h.query_timeout_ms})
    agg = {}
    for h in harnesses:
        agg[h.name] = {'stats': {}, 'cover': {g: False for g in h.cover}, 'sizes': {}, 'cex': [], 'problems': [],
                       'samples': [], 'assumptions': set(h.assumptions), 'functions': set(), 'tasks': 0}
    ctx = mp.get_context('spawn')
    pool = ctx.Pool(a.jobs, initializer=_worker_init, initargs=(a.src, bool(spec.get('matplotlib'))))
    pending = []
    deadline = t0 + budget
    out_of_budget = False
    stop_harness = set()

    def submit(t, where):
        where.append((t, pool.apply_async(run_task, (t,))))

    for t in tasks:
        submit(t, pending)
    try:
        while pending:
            time.sleep(0.05)
            nxt = []
            for t, ar in pending:
                if not ar.ready():
                    nxt.append((t, ar))
                    continue
                try:
                    r = ar.get()
                except Exception as e:  # worker crashed
                    agg[t['harness']]['problems'].append('worker error: %r' % (e,))
                    continue
                g = agg[t['harness']]
                g['tasks'] += 1
                for k, v in r['stats'].items():
                    g['stats'][k] = g['stats'].get(k, 0) + v
                sz = g['sizes'].setdefault(str(tuple(t['size'])), {'paths': 0, 'aborted': 0, 'complete': True})
                sz['paths'] += r['stats']['paths']
                sz['aborted'] += r['stats']['aborted']
                for k, v in r['cover'].items():
                    g['cover'][k] = g['cover'].get(k, False) or v
                g['assumptions'].update(r['assumptions'])
                g['functions'].update(r['functions'])
                if len(g['samples']) < 3:
                    g['samples'] += [dict(s, size=t['size'], harness=t['harness']) for s in r['samples'][:1]]
                if r['status'] in ('gap', 'unknown'):
                    g['problems'].append('%s size %s: %s' % (r['status'], t['size'], r.get('detail', '')[:1500]))
                    sz['complete'] = False
                for c in r['cex']:
                    c['size'] = t['size']
                    g['cex'].append(c)
                    stop_harness.add(t['harness'])
                if r['frontier']:
                    if r['status'] == 'cex' or t['harness'] in stop_harness:
                        sz['complete'] = False
                    elif time.time() > deadline:
                        out_of_budget = True
                        sz['complete'] = False
                    else:
                        fr = sorted(r['frontier'], key=len)
                        nchunk = max(1, min(len(fr), 12))
                        for i in range(nchunk):
                            submit(dict(t, prefixes=fr[i::nchunk], profile=False), nxt)
            pending = nxt
            if time.time() > deadline + 60:
                out_of_budget = True
                break
    finally:
        pool.terminate()
        pool.join()

    # verdicts
    violations, unconfirmed, inconclusive = [], [], []
    for h in harnesses:
        g = agg[h.name]
        for c in g['cex'][:3]:
            ok, rep, path = replay_real(a.src, pid.lower(), h.name, c['size'], c['inputs'], pid, scripted=h.scripted)
            c['replay'] = rep
            c['replay_file'] = path
            if ok:
                violations.append((h.name, c, path))
            else:
                unconfirmed.append((h.name, c, path))
        for p in g['problems']:
            inconclusive.append('%s: %s' % (h.name, p))
        unmet = [k for k in h.cover if not g['cover'].get(k)]      # goals met beyond the declared ones are informational
        if unmet and not g['cex']:
            inconclusive.append('%s: cover goals not met: %s' % (h.name, ', '.join(sorted(unmet))))
        if g['stats'].get('paths', 0) == 0 and not g['cex']:
            inconclusive.append('%s: no completed path' % h.name)
    if out_of_budget:
        inconclusive.append('wall-time budget of %.0f s exhausted before the exploration closed' % budget)
    val = {'ok': True, 'skipped': True}
    if not a.no_validate and not spec.get('no_validation'):
        val = model_validation(a.src, tier, seed)
        if not val['ok']:
            inconclusive.append('model validation (co-simulation against the real libraries) failed: ' + val['detail'][:600])

    from symex import world
    dig, files = world.source_digest(a.src)
    tot = {}
    for h in harnesses:
        for k, v in agg[h.name]['stats'].items():
            tot[k] = tot.get(k, 0) + v
    exhaustive = not inconclusive and not violations and not unconfirmed
    ev = {
        'property_id': pid, 'tier': tier, 'seed': seed, 'level': 'other',
        'coverage': {
            'explanation': 'bounded symbolic execution of the real source (/repo/src imported unmodified against '
                           'library models); one SMT query per path on the negated property; per-path unsat + '
                           'complete decision tree = holds for every input within the stated size bounds',
            'technique': spec.get('technique', ''),
            'evaluations': int(tot.get('paths', 0)),
            'distinct_nontrivial': int(tot.get('nontrivial', 0)),
            'rule': 'one evaluation = one completed execution path of the real code with symbolic inputs (paths are '
                    'pairwise disjoint regions of the input space); non-trivial = the path condition is satisfiable '
                    'and the path meets at least one declared cover goal',
            'obligations': int(tot.get('obligations', 0)),
            'discharged': int(tot.get('discharged', 0)),
            'solver_queries': int(tot.get('queries', 0)),
            'solver_seconds': round(tot.get('solver_s', 0), 2),
            'decisions': int(tot.get('decisions', 0)),
            'infeasible_branch_sides': int(tot.get('infeasible_sides', 0)),
            'aborted_paths': int(tot.get('aborted', 0)),
            'solver': 'z3 ' + _z3v(),
            'exhaustive': bool(exhaustive),
            'bounds': spec.get('bounds', {}).get(tier, ''),
            'outside_claim': spec.get('outside', ''),
            'harnesses': {h.name: {
                'doc': h.doc, 'float_model': h.float_model,
                'sizes': agg[h.name]['sizes'], 'stats': agg[h.name]['stats'],
                'cover_goals': agg[h.name]['cover'], 'tasks': agg[h.name]['tasks'],
                'functions_executed': sorted(agg[h.name]['functions']),
            } for h in harnesses},
            'samples': [s for h in harnesses for s in agg[h.name]['samples']][:6] or [{'note': 'no path completed'}],
            'source_digest': dig, 'source_files': {k: files[k] for k in sorted(files) if any(
                k in f for f in sum((sorted(agg[h.name]['functions']) for h in harnesses), []))} or None,
            'model_validation': val,
            'known_findings': known_lines, 'stale_known_findings': stale,
            'unconfirmed': [{'harness': n, 'failed': c['failed'], 'replay_file': p} for n, c, p in unconfirmed],
            'inconclusive': inconclusive,
        },
        'assumptions': sorted(set().union(*[agg[h.name]['assumptions'] for h in harnesses]) | set(spec.get('assumptions', []))),
        'wall_s': round(time.time() - t0, 2),
        'violations': len(violations),
    }
    os.makedirs(os.path.dirname(evidence_file), exist_ok=True)
    json.dump(ev, open(evidence_file, 'w'), indent=1, default=str)
    for n, c, p in violations:
        print('VIOLATION property=%s replay=%s' % (pid, p))
        print('  harness %s size %s failed clauses %s; real-world replay: %s' % (
            n, c['size'], c['failed'], json.dumps(c['replay'])[:600]))
    for n, c, p in unconfirmed:
        print('UNCONFIRMED property=%s harness=%s size=%s clauses=%s model=%s (solver counterexample did not reproduce '
              'against the real code: encoding or stub too loose)' % (pid, n, c['size'], c['failed'], p))
    for l in inconclusive:
        print('INCONCLUSIVE property=%s %s' % (pid, l))
    print('%s %s: %d paths, %d/%d obligations discharged, %d queries, solver %.1f s, wall %.1f s -> %s' % (
        pid, tier, tot.get('paths', 0), tot.get('discharged', 0), tot.get('obligations', 0), tot.get('queries', 0),
        tot.get('solver_s', 0), time.time() - t0,
        'VIOLATION' if violations else ('INCONCLUSIVE' if (inconclusive or unconfirmed) else 'holds within bounds')))
    if violations:
        return 1
    if inconclusive or unconfirmed:
        return 2
    return 0


def _z3v():
    import z3
    return z3.get_version_string()


if __name__ == '__main__':
    try:
        rc = main()
    except SystemExit:
        raise
    except BaseException as e:  # a crash of the machinery is never a verdict
        traceback.print_exc()
        print('INCONCLUSIVE harness error: %s: %s' % (type(e).__name__, e))
        rc = 2
    sys.exit(rc)
