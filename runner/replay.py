"""Real world: re-run one harness on the concrete inputs of a solver model, with the real
numpy/pandas/scikit-learn/statsmodels and the code under --src. Prints
REPLAY-RESULT {"failed": [clause names evaluated False], "clauses": {...}, "outcome": ...}."""
import sys, os, json, importlib, warnings, traceback
ROOT = os.path.dirname(os.path.dirname(os.path.abspath(__file__)))
sys.path.insert(0, ROOT)


def main():
    src = '/repo/src'
    args = sys.argv[1:]
    if args[0] == '--src':
        src = args[1]
        args = args[2:]
    scripted = False
    if args[0] == '--scripted':
        scripted = True
        args = args[1:]
    case = json.load(open(args[0]))
    warnings.simplefilter('ignore')
    from symex import world, core
    world.enter_real(src)
    mod = importlib.import_module('harness.' + case['module'])
    h = mod.get_harness(case['harness'])
    inputs = dict(case['inputs'])
    if scripted:
        from models import stubs
        stubs.install_scripted_real()
        stubs.reset_path()
        inputs['#scripted'] = True
    eng = core.ConcreteEngine(inputs)
    core.set_engine(eng)
    try:
        clauses = h.fn(eng, *case['size'])
    except core.Abort:
        print('REPLAY-RESULT ' + json.dumps({'failed': [], 'outcome': 'inputs violate an assumption when made concrete'}))
        return 0
    except core.EngineSignal as e:
        print('REPLAY-RESULT ' + json.dumps({'failed': [], 'outcome': 'engine signal %r' % (e,)}))
        return 0
    res = {}
    for n, c in clauses:
        try:
            res[n] = bool(c)
        except Exception as e:
            res[n] = 'error %r' % (e,)
    failed = [n for n, v in res.items() if v is False]
    out = {'failed': failed, 'mode': 'scripted library answers' if scripted else 'real libraries', 'clauses': res, 'notes': {k: str(v)[:400] for k, v in eng.path_notes.items()}}
    print('REPLAY-RESULT ' + json.dumps(out))
    return 1 if failed else 0


if __name__ == '__main__':
    try:
        sys.exit(main())
    except Exception:
        traceback.print_exc()
        sys.exit(3)
