"""H-metarize: real CeiloChunk.metarize(which) on a symbolic hit table with a symbolic assignment of the
valid hits to sets. Clause sets for C03 (amounts), C04 (base height / statistics / order), C01 (tail:
significance and codes) and C05 (table rows = sets present)."""
from harness.common import *
from symex.core import decode_fragments, SymInt, SymFloat

EXCL = {0: [], 1: ['a'], 2: ['a', 'zz'], 3: ['a', 'b'], 4: ['b']}


def same_code(a, b):
    """Equality of two METAR code strings (fragment strings in the shim world)."""
    if not shim():
        return a == b
    pa, pb = decode_fragments(a), decode_fragments(b)
    if len(pa) != len(pb):
        return False
    cl = []
    for x, y in zip(pa, pb):
        if isinstance(x, str) or isinstance(y, str):
            if x != y:
                return False
        else:
            if x[1] != y[1]:
                return False
            cl.append(x[0] == y[0])
    return And(cl) if cl else True


def _sorted_by(keys, items):
    """Stable sort of items by symbolic keys (forks on comparisons; reuses the code's own decisions)."""
    order = []
    for i, k in enumerate(keys):
        j = len(order)
        while j > 0 and bool(k < keys[order[j - 1]]):
            j -= 1
        order.insert(j, i)
    return [items[i] for i in order]


def percentile_linear(vals, q):
    """numpy's default percentile, written independently of the model (forking sort)."""
    s = _sorted_by(vals, vals)
    n = len(s)
    if n == 1:
        return s[0]
    vi = q / 100 * (n - 1)
    for k in range(n - 1):
        if k == n - 2 or bool(vi < k + 1):
            return s[k] + (s[k + 1] - s[k]) * (vi - k)


def build(E, N, C, which, excl, K=3, sym=('k0', 'k8', 'q', 'lb'), heights='sym', nan=True):
    """heights: 'sym' (free, NaN allowed if nan) or 'flat' (concrete 1000+10*i; row N-1 may be a NaN row)."""
    T = Table(E, N, C, accepted=False, nan=nan and heights == 'sym')
    if heights == 'flat':
        T.height = [1000.0 + 10 * i for i in range(N)]
        if nan and N > 1 and E.choose(2, 'lastnan'):
            T.height[N - 1] = float('nan')
    valid = [not bool(isnan(h)) for h in T.height]
    nset = min(K, max(1, sum(valid)))
    ids = [E.choose(nset, 'id%d' % i) if v else -1 for i, v in enumerate(valid)]
    prms = default_prms()
    prms['MSA'] = None
    if 'k0' in sym:
        prms['MAX_HITS_OKTA0'] = E.int('k0', 0, None)
    if 'k8' in sym:
        prms['MAX_HOLES_OKTA8'] = E.int('k8', 0, None)
    if 'q' in sym:
        q = E.real('perc')
        E.assume(And(q >= 0, q <= 100))
        prms['BASE_LVL_HEIGHT_PERC'] = q
    if 'lb' in sym:
        lb = E.real('lookback')
        E.assume(And(lb > 0, lb <= 100))
        prms['BASE_LVL_LOOKBACK_PERC'] = lb
    prms['EXCLUDE_FOR_BASE_HEIGHT_CALC'] = list(EXCL[excl])
    cols = T.cols()
    for c in ('slice_id', 'group_id', 'layer_id'):
        cols[c] = list(ids)
    data = frame(cols)
    ch = new_chunk(data, prms)
    if which in ('groups', 'layers'):
        ch._slices = 'computed'
    if which == 'layers':
        ch._groups = 'computed'
    return T, ids, prms, ch


def run_steps(ch, which, steps):
    """Run the named private steps of metarize() on a fresh table (falls back to the whole metarize())."""
    def go():
        if not all(hasattr(ch, s_) for s_ in ['_setup_sligrolay_pdf'] + steps):
            ch.metarize(which)
            return getattr(ch, which)
        pdf, cids = ch._setup_sligrolay_pdf(which)
        for s_ in steps:
            pdf = getattr(ch, s_)(which, pdf, cids)
        return pdf
    with WarningLog():
        return outcome(go)


def members(ids, cid):
    return [i for i, x in enumerate(ids) if x == cid]


def count_meas(T, rows):
    """Number of distinct (ceilometer, time) measurements among the given rows, as a formula."""
    t = 0
    for n, i in enumerate(rows):
        dup = Or([T.same_meas(i, j) for j in rows[:n]] or [False])
        t = t + (ite(dup, 0, 1) if is_sym(dup) else (0 if dup else 1))
    return t


def h_metarize(E, N, C, which, excl, prop):
    from ampycloud import wmo, icao
    if prop == 'C03':
        T, ids, prms, ch = build(E, N, C, which, excl, K=2, sym=('k0', 'k8'), heights='flat')
        kind, tab = run_steps(ch, which, ['_calculate_cloud_amount'])
    elif prop == 'C04':
        T, ids, prms, ch = build(E, N, C, which, excl, K=2, sym=('k0', 'q', 'lb'), nan=False)
        kind, tab = run_steps(ch, which, ['_calculate_sligrolay_base_height', '_add_sligrolay_information'])
    elif prop == 'C03C':
        # concrete buffers chosen by forks: counts, totals and thresholds are then concrete on every path, so whatever
        # arithmetic the code does on them runs in the interpreter's own binary64 (rounding of n/total*100 included)
        T, ids, prms, ch = build(E, N, C, which, excl, K=2, sym=(), heights='flat')
        prms['MAX_HITS_OKTA0'] = ch.prms['MAX_HITS_OKTA0'] = E.choose(2, 'k0c')
        prms['MAX_HOLES_OKTA8'] = ch.prms['MAX_HOLES_OKTA8'] = E.choose(3, 'k8c')
        kind, tab = run_steps(ch, which, ['_calculate_cloud_amount'])
        prop = 'C03'
    elif prop == 'C04W':
        # the C04 clauses on the table of the whole metarize() (the steps share whatever metarize() hands from one to the next)
        T, ids, prms, ch = build(E, N, C, which, excl, K=2, sym=('k0', 'q', 'lb'), nan=False)
        with WarningLog():
            kind, tab = outcome(ch.metarize, which)
        if kind == 'ok':
            tab = getattr(ch, which)
        prop = 'C04'
    else:
        T, ids, prms, ch = build(E, N, C, which, excl, K=3, sym=('q',))
        if prop == 'C01':
            prms['MSA'] = E.real('msa')       # the table must not depend on the MSA
        with WarningLog():
            kind, tab = outcome(ch.metarize, which)
        if kind == 'ok':
            tab = getattr(ch, which)
    k0, k8 = prms['MAX_HITS_OKTA0'], prms['MAX_HOLES_OKTA8']
    q, lb = prms['BASE_LVL_HEIGHT_PERC'], prms['BASE_LVL_LOOKBACK_PERC']
    cl = [('metarize returns', kind == 'ok')]
    if kind != 'ok':
        E.note('exception', repr(tab))
        return cl
    cids = sorted(set(x for x in ids if x >= 0))
    tcid = [int(x) for x in col(tab, 'cluster_id')]
    cl.append(('table rows = sets present in the per-hit assignment', sorted(tcid) == cids and len(tab) == len(cids)))
    if sorted(tcid) != cids:
        return cl
    nh, perc, okta = col(tab, 'n_hits'), col(tab, 'perc'), col(tab, 'okta')
    base, code, sig = [fval(x) for x in col(tab, 'height_base')], col(tab, 'code'), col(tab, 'significant')
    if prop in ('C03', 'C04'):
        order = list(range(len(tcid)))
    total = count_meas(T, list(range(N)))
    tot_code = ch.max_hits_per_layer
    E.cover('two hits of one measurement in one set',
            Or([And(ids[i] == ids[j], ids[i] >= 0, T.same_meas(i, j)) for i in range(N) for j in range(i)] or [False]))
    E.cover('coincident time stamps on two ceilometers',
            Or([And(T.ci[i] != T.ci[j], T.dt[i] == T.dt[j]) for i in range(N) for j in range(i)] or [False]))
    if prop == 'C05':
        cl.append(('n_%s matches' % which, getattr(ch, 'n_' + which) == len(cids)))
        for c in ('ceilo', 'dt', 'height', 'type'):
            cl.append(('hits unaltered (%s)' % c, And([same_value(fval(a), b) for a, b in zip(col(ch.data, c), getattr(T, c))])
                       and len(ch.data) == N))
        cl.append(('per-hit assignment unaltered', [int(x) for x in col(ch.data, which[:-1] + '_id')] == ids))
        return cl
    if prop == 'C03':
        cl.append(('total = number of distinct (ceilometer, time) measurements', tot_code == total))
        if int(tot_code) <= 0:
            return cl
        for r, cid in enumerate(tcid):
            mem = members(ids, cid)
            cnt = count_meas(T, mem)
            cl.append(('n_hits = distinct measurements contributing [row %d]' % r, fval(nh[r]) == cnt))
            n, t = int(nh[r]), int(tot_code)
            cl.append(('perc = count / total * 100 [row %d]' % r, same_float(fval(perc[r]), n / t * 100)))
            o = int(fval(okta[r]))
            rule0 = n <= k0
            rule8 = And(Not(rule0), t - n <= k8)
            mid = And(Not(rule0), Not(rule8))
            E.cover('okta 0 by the buffer', And(rule0, n > 0))
            E.cover('okta 8 by the buffer', And(rule8, n < t))
            E.cover('okta from the binning', mid)
            near = abs(2 * o * t - 16 * n) <= t
            binning = (o == 0 and n == 0) or (o == 8 and n == t) or \
                (0 < n < t and 1 <= o <= 7 and (near or (o == 1 and 8 * n < t) or (o == 7 and 8 * n > 7 * t)))
            cl.append(('okta: 0 below the buffer, 8 when few holes, else WMO binning [row %d]' % r,
                       And(Implies(rule0, o == 0), Implies(rule8, o == 8), Implies(mid, binning))))
            abbr = {0: 'NCD', 1: 'FEW', 2: 'FEW', 3: 'SCT', 4: 'SCT', 5: 'BKN', 6: 'BKN', 7: 'BKN', 8: 'OVC'}.get(o)
            cl.append(('code prefix = WMO abbreviation of the okta [row %d]' % r,
                       abbr is not None and wmo.okta2code(o) == abbr))
            for r2 in range(len(tcid)):
                if int(nh[r2]) >= n:
                    cl.append(('okta never decreases with the count [rows %d,%d]' % (r, r2), int(okta[r2]) >= o))
        return cl
    # ----- C04 / C01-tail: heights
    hts = T.height
    for r, cid in enumerate(tcid):
        mem = members(ids, cid)
        hm = [hts[i] for i in mem]
        mn, mx = hm[0], hm[0]
        for h in hm[1:]:
            mn = ite(h <= mn, h, mn) if is_sym(h <= mn) else (h if h <= mn else mn)
            mx = ite(h >= mx, h, mx) if is_sym(h >= mx) else (h if h >= mx else mx)
        if prop == 'C04':
            cl.append(('min <= base <= max of the member hits [row %d]' % r, And(mn <= base[r], base[r] <= mx)))
            cl.append(('height_min / height_max / thickness [row %d]' % r,
                       And(same_float(fval(col(tab, 'height_min')[r]), mn), same_float(fval(col(tab, 'height_max')[r]), mx),
                           same_float(fval(col(tab, 'thickness')[r]), mx - mn))))
            tot = hm[0]
            for h in hm[1:]:
                tot = tot + h
            mean = tot / len(hm)
            cl.append(('height_mean [row %d]' % r, same_float(fval(col(tab, 'height_mean')[r]), mean)))
            sd = fval(col(tab, 'height_std')[r])
            if len(hm) < 2:
                cl.append(('height_std of a single hit is NaN [row %d]' % r, isnan(sd)))
            else:
                var = None
                for h in hm:
                    t_ = (h - mean) * (h - mean)
                    var = t_ if var is None else var + t_
                var = var / (len(hm) - 1)
                if shim():
                    from models import npmodel
                    cl.append(('height_std [row %d]' % r, same_float(sd, npmodel._sqrt(var))))
                else:
                    cl.append(('height_std [row %d]' % r, same_float(sd * sd, var)))
            # the configured percentile of the selected, most recent member hits
            nonex = [i for i in mem if T.ceilo[i] not in EXCL[excl]]
            sel = nonex if (EXCL[excl] and bool(len(nonex) > k0)) else mem
            E.cover('exclusion applied', bool(EXCL[excl]) and sel is nonex and len(nonex) < len(mem))
            E.cover('exclusion fall-back', bool(EXCL[excl]) and sel is mem and len(nonex) < len(mem))
            distinct = And([Not(T.dt[i] == T.dt[j]) for n_, i in enumerate(sel) for j in sel[:n_]] or [True])
            if bool(distinct):
                chron = _sorted_by([T.dt[i] for i in sel], sel)
                kk = to_int(len(sel) * lb / 100)
                E.cover('look-back keeps a strict subset', 0 < kk < len(sel))
                if kk >= 1:
                    chosen = chron[-kk:]
                    ref = percentile_linear([hts[i] for i in chosen], q)
                    cl.append(('base = configured percentile of the look-back fraction of the selected hits [row %d]' % r,
                               same_float(base[r], ref)))
        if prop == 'C01':
            ref = wmo.okta2code(int(okta[r])) + wmo.height2code(base[r])
            cl.append(('code = okta abbreviation + coded base [row %d]' % r, same_code(code[r], ref)))
    if prop not in ('C03', 'C04'):
        cl.append(('table sorted by ascending base', And([base[r] <= base[r + 1] for r in range(len(base) - 1)] or [True])))
    if prop == 'C01':
        ref = icao.significant_cloud([int(o) for o in okta])
        cl.append(('significant = 1-3-5 rule on the table order', [bool(x) for x in sig] == [bool(x) for x in ref]))
    if prop == 'C04T':
        for r in range(len(tcid)):
            parts = code[r][3:] if not shim() else None
            if shim():
                pieces = decode_fragments(code[r])
                ok = len(pieces) == 2 and not isinstance(pieces[1], str)
                cl.append(('code = abbreviation + one formatted integer [row %d]' % r, ok))
                if ok:
                    x = pieces[1][0]
                    cl.append(('coded height is the floor of the base, never above it [row %d]' % r,
                               And(x * 100 <= base[r], Or(And(base[r] <= 10000, base[r] < x * 100 + 100),
                                                         And(base[r] > 10000, base[r] < x * 100 + 1000)))))
            else:
                x = int(parts)
                cl.append(('coded height is the floor of the base, never above it [row %d]' % r,
                           x * 100 <= base[r] and (base[r] < x * 100 + 100 if base[r] <= 10000 else base[r] < x * 100 + 1000)))
    return cl
