"""C09 - results are reproducible and the global random state is left alone (claimed in part)."""
from harness.common import *
from harness import pipeline

SPEC = {
    'technique': 'symbolic execution of utils.tmp_seed and mocker.canonical_demo_data against a model of numpy.random as an '
                 'explicit state cell (symbolic 5-field legacy state), of layer.ncomp_from_gmm with a symbolic seed against the '
                 'recording mixture stub, and of the whole chain with an access monitor on the global generator; 2-run history independence',
    'bounds': {'quick': 'any initial generator state (key, position, has_gauss, cached gaussian symbolic), any temporary seed, body '
                        'that draws and then returns or raises; any random_seed int >= 0; two consecutive calls with the concrete seeds 0 and 42 (generator objects modelled as seed + fits served); whole chain on <= 2 hits; 30-hit mixture group',
               'thorough': 'as quick, chain on 2 hits of 2 ceilometers, history 2-run on 2-hit chunks'},
    'outside': 'bit-identity across processes, PYTHONHASHSEED values, thread counts and library builds: a property of the numpy / '
               'scikit-learn binaries that cannot be encoded; the determinism of the three numerical procedures is assumed (stubs are memoised)',
    'budget_s': {'quick': 600, 'thorough': 1800},
}


def _sym_state(E):
    return ('MT19937', E.int('key'), E.int('pos', 0, 624), E.int('has_gauss', 0, 1), E.real('cached'))


def _state_eq(a, b):
    return len(a) == len(b) and a[0] == b[0] and And([same_value(x, y) for x, y in zip(a[1:], b[1:])])


def h_seed(E, raises):
    """tmp_seed(seed): whatever the body does to the generator, and whether it returns or raises, the state afterwards is the
    state before (all five fields)."""
    from ampycloud.utils import utils
    N = np()
    if not shim():
        # real world: 5-field legacy state built from the model values
        import numpy
        st0 = numpy.random.get_state()
        init = ('MT19937', st0[1], int(E.int('pos', 0, 624)), int(E.int('has_gauss', 0, 1)), float(E.real('cached')))
        numpy.random.set_state(init)
        seed = abs(int(E.int('seed', 0, None))) % (2 ** 32)
        try:
            with utils.tmp_seed(seed):
                numpy.random.normal(size=3)
                if raises:
                    raise RuntimeError('body failed')
        except RuntimeError:
            pass
        after = numpy.random.get_state()
        ok = (after[1] == init[1]).all() and after[2:] == init[2:]
        return [('state restored (key, position, has_gauss, cached gaussian)', bool(ok))]
    init = _sym_state(E)
    N.random.state = init
    del N.random.log[:]
    seed = E.int('seed', 0, None)
    E.cover('generator holds a cached gaussian', init[3] == 1)
    try:
        with utils.tmp_seed(seed):
            N.random.consume('normal')
            if raises:
                raise RuntimeError('body failed')
    except RuntimeError:
        pass
    return [('state restored (key, position, has_gauss, cached gaussian)', _state_eq(N.random.state, init))]


def h_demo(E):
    """canonical_demo_data(): the global generator state afterwards equals the state before."""
    from ampycloud.utils import mocker
    N = np()
    if not shim():
        import numpy
        st0 = numpy.random.get_state()
        init = ('MT19937', st0[1], int(E.int('pos', 0, 624)), int(E.int('has_gauss', 0, 1)), float(E.real('cached')))
        numpy.random.set_state(init)
        mocker.canonical_demo_data()
        after = numpy.random.get_state()
        return [('state restored after canonical_demo_data()', bool((after[1] == init[1]).all() and after[2:] == init[2:]))]
    init = _sym_state(E)
    N.random.state = init
    E.cover('generator holds a cached gaussian', init[3] == 1)
    orig = mocker.mock_layers

    def fake(*a, **k):
        N.random.consume('mock_layers')
        return frame({'ceilo': ['1', '1'], 'dt': [-810.0, -790.0], 'height': [1000.0, 2000.0], 'type': [2, 2]})
    mocker.mock_layers = fake
    try:
        kind, out = outcome(mocker.canonical_demo_data)
    finally:
        mocker.mock_layers = orig
    return [('canonical_demo_data() returns', kind == 'ok'),
            ('state restored after canonical_demo_data()', _state_eq(N.random.state, init))]


def h_gmm_seed(E):
    """ncomp_from_gmm(random_seed=s): every mixture model is built with random_state == s (never None), for any s >= 0."""
    from ampycloud import layer as L
    from models import stubs
    N = np()
    stubs.OPTIONS['gmm'] = pipeline.gmm_stub
    s = E.int('seed', 0, None)
    E.cover('seed 0', s == 0)
    E.cover('seed > 0', s > 0)
    vals = N.array(pipeline.FILL_H)
    real_cls = None
    if not shim() and getattr(L.GaussianMixture, '__module__', '').startswith('sklearn'):
        # replay with the real scikit-learn: note what each real estimator is given
        class Recording(L.GaussianMixture):
            def fit(self, X, y=None):
                stubs.CALLS.append(('gmm_init', self.n_components, self.covariance_type, self.random_state))
                return super().fit(X, y)
        real_cls, L.GaussianMixture = L.GaussianMixture, Recording
    try:
        with WarningLog():
            kind, res = outcome(L.ncomp_from_gmm, vals, ncomp_max=2, min_sep=0, random_seed=s, rescale_0_to_x=100)
    finally:
        if real_cls is not None:
            L.GaussianMixture = real_cls
    inits = [c for c in stubs.CALLS if c[0] == 'gmm_init']
    cl = [('ncomp_from_gmm returns', kind == 'ok'), ('mixture models were built', len(inits) >= 1)]
    fits = [c[2] for c in stubs.CALLS if c[0] == 'gmm_fit_rs']

    def seeded_by(rs, fit):
        # the seed itself, or a generator made from it that no fit has used yet (equally reproducible)
        if getattr(rs, '_is_model_rs', False):
            return fit is not None and fit[2] == 0 and fit[1] is not None and same_value(fit[1], s)
        if hasattr(rs, 'get_state') and hasattr(rs, 'random_sample'):     # real generator, seen just before its fit
            a_, b_ = rs.get_state(), type(rs)(int(s)).get_state()
            return bool((a_[1] == b_[1]).all()) and a_[2:] == b_[2:]
        return rs is not None and same_value(rs, s) is not False and same_value(rs, s)
    cl.append(('every mixture model gets the explicit seed', And([seeded_by(c[3], f) for c, f in zip(inits, fits + [None] * len(inits))] or [True])))
    return cl


def h_gmm_twice(E, seed):
    """ncomp_from_gmm twice in a row on the same values with the same seed: the mixture models of the second call see the
    same generator as those of the first (the seed itself, or a generator in the same state), and the results agree."""
    from ampycloud import layer as L
    from models import stubs
    N = np()
    if shim():
        del N.random.log[:]
    else:
        st0 = N.random.get_state()
    stubs.OPTIONS['gmm'] = pipeline.gmm_stub
    rec = []
    if not shim() and getattr(L.GaussianMixture, '__module__', '').startswith('sklearn'):
        # replay with the real scikit-learn: note the generator state each real fit is handed
        class Recording(L.GaussianMixture):
            def fit(self, X, y=None):
                rs = self.random_state
                rec.append(repr((hash(rs.get_state()[1].tobytes()), int(rs.get_state()[2]))) if hasattr(rs, 'get_state') else repr(rs))
                return super().fit(X, y)
        real_cls, L.GaussianMixture = L.GaussianMixture, Recording
    out, seen = [], []
    for run in range(2):
        n0, r0 = len(stubs.CALLS), len(rec)
        with WarningLog():
            out.append(outcome(L.ncomp_from_gmm, N.array(pipeline.FILL_H), ncomp_max=2, min_sep=0, random_seed=seed, rescale_0_to_x=100))
        inits = [c[3] for c in stubs.CALLS[n0:] if c[0] == 'gmm_init']
        fits = [c[2] for c in stubs.CALLS[n0:] if c[0] == 'gmm_fit_rs']
        seen.append([repr(f) if f is not None else repr(i) for i, f in zip(inits, fits)] + rec[r0:])
    if 'real_cls' in locals():
        L.GaussianMixture = real_cls
    E.cover('mixture engaged', len(seen[0]) >= 2)
    (k1, r1), (k2, r2) = out
    cl = [('both calls return', k1 == 'ok' and k2 == 'ok'),
          ('each mixture model of the second call is given the generator state its counterpart of the first call was given', seen[0] == seen[1]),
          ('no access to the global generator', list(N.random.log) == [] if shim() else
           all((a == b).all() if hasattr(a, 'all') else a == b for a, b in zip(st0, N.random.get_state())))]
    if k1 == 'ok' and k2 == 'ok':
        cl.append(('same number of components and same labels', And([same_value(r1[0], r2[0])] + [same_value(a, b) for a, b in zip(list(r1[1]), list(r2[1]))]
                                                                   + [len(list(r1[1])) == len(list(r2[1]))])))
    return cl


def h_monitor(E, N_, C):
    """Whole chain: the global generator is neither read nor written."""
    N = np()
    del N.random.log[:]
    T = Table(E, N_, C, tmin=1, tmax=1)
    kind, ch, st = pipeline.run_pipeline(T.frame(), {'MSA': None, 'MAX_HITS_OKTA0': 0}, stub_checker=True)
    E.cover('ran')
    return [('chain ran', kind == 'ok'), ('no access to the global generator', list(N.random.log) == [])]


def h_layer_monitor(E, order):
    """Mixture path (30-hit group): random_state concrete and not None; no access to the global generator."""
    from models import stubs
    N = np()
    del N.random.log[:]
    cl = pipeline.h_layer(E, order, 0, 100, 'C08')
    inits = [c for c in stubs.CALLS if c[0] == 'gmm_init']
    E.cover('mixture engaged', len(inits) > 0)
    cl.append(('every mixture model built with a concrete random_state', all((isinstance(c[3], int) and not isinstance(c[3], bool)) or (getattr(c[3], '_is_model_rs', False) and isinstance(c[3].seed_value, int)) for c in inits)))
    cl.append(('no access to the global generator', list(N.random.log) == []))
    return cl


def h_history(E, N_):
    """2-run: chunk B processed alone vs after another chunk A in the same process: identical results."""
    TA = Table(E, N_, 1, tag='A', tmin=1, tmax=1)
    TB = Table(E, N_, 1, tag='B', tmin=1, tmax=1)
    pr = {'MSA': None, 'MAX_HITS_OKTA0': 0}
    k0, b0, _ = pipeline.run_pipeline(TB.frame(), pr, stub_checker=True)
    kA, a, _ = pipeline.run_pipeline(TA.frame(), pr, stub_checker=True)
    k1, b1, _ = pipeline.run_pipeline(TB.frame(), pr, stub_checker=True)
    E.cover('ran')
    cl = [('all runs end', k0 == 'ok' and kA == 'ok' and k1 == 'ok')]
    if cl[0][1]:
        cl.append(('same result for B whatever was processed before', pipeline.same_snapshot(pipeline.snapshot(b0), pipeline.snapshot(b1))))
    return cl


HARNESSES = [
    H('H-seed', h_seed, quick=[(0,), (1,)], thorough=[(0,), (1,)], cover=['generator holds a cached gaussian'],
      doc='real utils.tmp_seed with a symbolic initial generator state: state restored when the body returns and when it raises'),
    H('H-demo', h_demo, quick=[()], thorough=[()], cover=['generator holds a cached gaussian'],
      assumptions=['mocker.mock_layers replaced by a stub that consumes the generator and returns a small frame'],
      doc='real mocker.canonical_demo_data leaves the generator state as it found it'),
    H('H-gmm-seed', h_gmm_seed, quick=[()], thorough=[()], cover=['seed 0', 'seed > 0'], float_model='R',
      doc='real layer.ncomp_from_gmm with any seed >= 0: every GaussianMixture is given exactly that random_state'),
    H('H-gmm-twice', h_gmm_twice, quick=[(0,), (42,)], thorough=[(0,), (42,), (2 ** 32 - 1,)], cover=['mixture engaged'], float_model='R',
      doc='real layer.ncomp_from_gmm twice with the same concrete seed: same generator states handed to the mixture models, same result'),
    H('H-monitor', h_monitor, quick=[(1, 1), (2, 1)], thorough=[(1, 1), (2, 1), (2, 2)], cover=['ran'], float_model='R',
      doc='whole chain: numpy.random is never touched'),
    H('H-layer-monitor', h_layer_monitor, quick=[('asc',)], thorough=[('asc',), ('desc',)], cover=['mixture engaged'], float_model='R',
      doc='mixture path: explicit concrete random_state, numpy.random never touched'),
    H('H-history', h_history, quick=[(1,), (2,)], thorough=[(1,), (2,)], cover=['ran'], float_model='R',
      doc='2-run history independence within one process'),
]
get_harness = make_get(HARNESSES)
