"""C16 - ceilometer names are labels only: renaming them changes nothing."""
from harness.common import *
from harness import pipeline
from harness.pipeline import snapshot, same_table, WHICH
from harness.tables import same_code

SPEC = {
    'technique': '2-run symbolic execution of the whole chain on the same symbolic accepted table under two ceilometer namings '
                 '(exclusion list mapped accordingly); equality of every per-hit assignment, table entry and message decided per path by z3',
    'bounds': {'quick': 'accepted tables of <= 2 hits on 2 ceilometers (any times incl. coincident, any heights, type 1..2) x renamings '
                        '{swap, names sorting differently as strings (10 < 9), prefix names (PO1/PO10), empty / blank names} x parameter families with symbolic '
                        'look-back / percentile / fall-back threshold and an exclusion list',
               'thorough': 'every renaming x 4 parameter families at 2 hits'},
    'outside': 'renamings other than the enumerated ones (names are concrete strings; their assignment to hits and everything else is '
               'symbolic); more ceilometers than 2; non-string names',
    'budget_s': {'quick': 1200, 'thorough': 3600},
}
RENAMINGS = [{'a': 'b', 'b': 'a'}, {'a': '9', 'b': '10'}, {'a': 'PO1', 'b': 'PO10'}, {'a': 'PO10', 'b': 'PO1'}, {'a': '', 'b': ' '}]


def h_rename(E, N, pvar, ren):
    m = RENAMINGS[ren]
    T = Table(E, N, 2, tmin=1, tmax=2)
    prms = pipeline.sym_prms(E, pvar)
    if pvar == 1:
        prms['EXCLUDE_FOR_BASE_HEIGHT_CALC'] = ['a']
    kA, chA, stA = pipeline.run_pipeline(T.frame(), prms, stub_checker=True)
    colsB = T.cols()
    colsB['ceilo'] = [m[c] for c in T.ceilo]
    prmsB = dict(prms)
    if prms.get('EXCLUDE_FOR_BASE_HEIGHT_CALC'):
        prmsB['EXCLUDE_FOR_BASE_HEIGHT_CALC'] = [m[c] for c in prms['EXCLUDE_FOR_BASE_HEIGHT_CALC']]
    kB, chB, stB = pipeline.run_pipeline(frame(colsB), prmsB, stub_checker=True)
    E.cover('coincident time stamps on the two ceilometers', Or([And(T.ci[i] != T.ci[j], T.dt[i] == T.dt[j]) for i in range(N) for j in range(i)] or [False]))
    E.cover('both ceilometers present', len(set(T.ci)) == 2)
    cl = [('both runs end alike (no exception in either)', kA == 'ok' and kB == 'ok')]
    if kA != 'ok' or kB != 'ok':
        E.note('outcomes', '%s@%s / %s@%s: %s' % (kA, stA, kB, stB, str(chB)[:200]))
        return cl
    a, b = snapshot(chA), snapshot(chB)
    cl.append(('names mapped one to one in the per-hit table', [m[c] for c in a['data']['ceilo']] == list(b['data']['ceilo'])))
    a['data'] = {k: v for k, v in a['data'].items() if k != 'ceilo'}
    b['data'] = {k: v for k, v in b['data'].items() if k != 'ceilo'}
    c2 = [same_table(a['data'], b['data'])]
    for w in WHICH:
        c2.append(same_table(a[w], b[w]))
        ma, mb = a['msg_' + w], b['msg_' + w]
        c2.append(same_code(ma, mb) if isinstance(ma, str) and isinstance(mb, str) else ma is mb)
    c2.append(a['n'] == b['n'])
    cl.append(('same per-hit assignment, tables and messages', And(c2)))
    return cl


HARNESSES = [
    H('H-rename', h_rename, quick=[(2, 0, 0), (2, 1, 0), (2, 1, 1), (2, 5, 2), (2, 1, 3), (2, 5, 4)],
      thorough=[(2, p, r) for p in (0, 1, 5, 6) for r in range(5)], float_model='R', scripted=True,
      cover=['coincident time stamps on the two ceilometers', 'both ceilometers present'],
      assumptions=['utils.check_data_consistency replaced by a stand-in on the accepted table (C15)'],
      doc='whole chain twice under two namings of the ceilometers: identical results'),
]
get_harness = make_get(HARNESSES)
