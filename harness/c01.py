"""C01 - METAR-like message is always well-formed and obeys the ICAO layer selection."""
from harness.common import *
from harness import msg as M
from harness import tables, pipeline

SPEC = {
    'technique': 'symbolic execution of CeiloChunk.metar_msg (with the real icao.significant_cloud, wmo.okta2code and '
                 'wmo.height2code filling the table) on directly constructed chunks; structural grammar check on '
                 'fragment strings; per-path unsat',
    'bounds': {'quick': 'tables of 0..3 rows (slices/groups: 0..2) x MSA in {None, any real}; okta 0..8, bases any '
                        'reals in [0,1e5) ascending; high-cloud flag free; plus 4-row layer tables with bases in [0,1e4]',
               'thorough': 'as quick plus 3-row slices/groups tables, 4-row layer tables without MSA and 5-row layer tables (bases in [0,1e4])'},
    'outside': 'tables with more rows than the bound; that metarize() produces a sorted table with these columns '
               '(harness H-metarize of C03/C04/C05); bases >= 1e5 ft or negative (excluded by the statement)',
    'budget_s': {'quick': 600, 'thorough': 3000},
}


def h_msg_c01(E, k, which, msa_none, low):
    return M.h_msg(E, k, which, msa_none, low, 'C01')


def _sizes(kmax, klow):
    """(rows, which, MSA is None, bases restricted to [0, 10000]): all three tables up to 2 rows, layers up to
    kmax rows with unrestricted bases, and layers with klow rows with bases below 10000 ft (one coding branch)."""
    out = []
    for k in range(0, kmax + 1):
        for w in ('layers', 'groups', 'slices'):
            if w != 'layers' and k > 2:
                continue
            for mn in (0, 1):
                out.append((k, w, mn, 0))
    for k in range(kmax + 1, klow + 1):
        out.append((k, 'layers', 0, 1))
    return out


def h_tail(E, N, C, which):
    return tables.h_metarize(E, N, C, which, 0, 'C01')


def h_run(E, N, C, pvar, chk):
    return pipeline.h_run(E, N, C, pvar, chk, 'C01')


TH_EXTRA = [(3, 'groups', 0, 0), (3, 'groups', 1, 0), (3, 'slices', 0, 0), (3, 'slices', 1, 0), (4, 'layers', 1, 1), (5, 'layers', 0, 1)]
HARNESSES = [
    H('H-msg', h_msg_c01, quick=_sizes(3, 4), thorough=_sizes(3, 4) + TH_EXTRA, float_model='R',
      cover=['NCD', 'NSC', '1 groups', '2 groups', '3 groups', 'layer exactly at the MSA present'],
      doc='real metar_msg(which) on a chunk whose table has k symbolic rows: grammar, order, 1-3-5 ranks, no zero-okta '
          'row, no row at/above the MSA'),
    H('H-tail', h_tail, quick=[(1, 1, 'layers'), (2, 2, 'layers'), (2, 1, 'groups')], thorough=[(1, 1, 'layers'), (2, 2, 'layers'), (3, 2, 'layers'), (2, 2, 'slices'), (2, 2, 'groups')],
      float_model='R', cover=['two hits of one measurement in one set'],
      assumptions=['statsmodels LOWESS replaced by a stub returning arbitrary finite values'],
      doc='whole real metarize(which) with an MSA set: table sorted by base, significant = 1-3-5 rule on the table order (whatever the MSA), code = abbreviation + coded base'),
    H('H-run-msg', h_run, quick=[(1, 1, 2, 0), (2, 1, 2, 0)], thorough=[(1, 1, 2, 0), (2, 1, 2, 0), (2, 2, 2, 0), (2, 1, 0, 0)], float_model='R',
      cover=['two slices'], assumptions=['utils.check_data_consistency replaced by a stand-in on the accepted table (C15)'],
      doc='whole chain with a symbolic MSA: each of the three messages against the table it was made from'),
]
get_harness = make_get(HARNESSES)
