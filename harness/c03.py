"""C03 - sky coverage: hit counts, percentages and oktas are exactly what the hits imply."""
from harness.common import *
from harness import tables

SPEC = {
    'technique': 'symbolic execution of CeiloChunk.metarize (_setup_sligrolay_pdf, _calculate_cloud_amount, '
                 'max_hits_per_layer, ceilos, wmo.perc2okta, wmo.okta2code) on symbolic hit tables with a symbolic '
                 'assignment of hits to sets; counting oracle written over pairwise z3 terms; per-path unsat',
    'bounds': {'quick': 'tables of <= 3 hits on <= 3 ceilometers (4 hits on one), <= 2 sets, any times/heights/types, MAX_HITS_OKTA0 and '
                        'MAX_HOLES_OKTA8 any non-negative ints; binning for larger totals through C18',
               'thorough': 'tables of <= 4 hits on <= 2 ceilometers, 3 hits on 3 ceilometers'},
    'outside': 'totals above the row bound other than through C18 (perc2okta for all n <= m); NaN time stamps',
    'budget_s': {'quick': 900, 'thorough': 3000},
}


def h_amount(E, N, C, which):
    return tables.h_metarize(E, N, C, which, 0, 'C03')


HARNESSES = [
    H('H-amount', h_amount, quick=[(1, 1, 'layers'), (2, 2, 'layers'), (3, 2, 'layers'), (3, 3, 'layers'), (4, 1, 'layers'), (2, 2, 'slices'), (2, 2, 'groups')],
      thorough=[(1, 1, 'layers'), (2, 2, 'layers'), (3, 2, 'layers'), (3, 3, 'layers'), (4, 1, 'layers'), (4, 2, 'layers'), (3, 2, 'slices'), (3, 2, 'groups')],
      float_model='R',
      cover=['two hits of one measurement in one set', 'coincident time stamps on two ceilometers', 'okta 0 by the buffer',
             'okta 8 by the buffer', 'okta from the binning'],
      assumptions=['statsmodels LOWESS replaced by a stub returning arbitrary finite values (fluffiness is not part of C03)'],
      doc='real metarize(which): n_hits / total / perc / okta with both buffers / monotonicity across sets / code prefix'),
]
get_harness = make_get(HARNESSES)
