"""C03 - sky coverage: hit counts, percentages and oktas are exactly what the hits imply."""
from harness.common import *
from harness import tables

SPEC = {
    'technique': 'symbolic execution of CeiloChunk.metarize (_setup_sligrolay_pdf, _calculate_cloud_amount, '
                 'max_hits_per_layer, ceilos, wmo.perc2okta, wmo.okta2code) on symbolic hit tables with a symbolic '
                 'assignment of hits to sets; counting oracle written over pairwise z3 terms; per-path unsat',
    'bounds': {'quick': 'tables of <= 3 hits on <= 3 ceilometers (4 hits on one), <= 2 sets, any times/heights/types, MAX_HITS_OKTA0 and '
                        'MAX_HOLES_OKTA8 any non-negative ints; the same with concrete buffers (0..1 hits, 0..2 holes) so that the code\'s arithmetic on counts runs in native binary64 '
                        '(3-4 hits on one ceilometer, 3 on two); binning for larger totals through C18',
               'thorough': 'tables of <= 4 hits on <= 2 ceilometers, 3 hits on 3 ceilometers'},
    'outside': 'totals above the row bound other than through C18 (perc2okta for all n <= m); NaN time stamps',
    'budget_s': {'quick': 900, 'thorough': 3000},
}


def h_amount(E, N, C, which):
    return tables.h_metarize(E, N, C, which, 0, 'C03')


def h_amount_concrete(E, N, C, which):
    return tables.h_metarize(E, N, C, which, 0, 'C03C')


HARNESSES = [
    H('H-amount', h_amount, quick=[(1, 1, 'layers'), (2, 2, 'layers'), (3, 2, 'layers'), (3, 3, 'layers'), (4, 1, 'layers'), (2, 2, 'slices'), (2, 2, 'groups')],
      thorough=[(1, 1, 'layers'), (2, 2, 'layers'), (3, 2, 'layers'), (3, 3, 'layers'), (4, 1, 'layers'), (4, 2, 'layers'), (3, 2, 'slices'), (3, 2, 'groups')],
      float_model='R',
      cover=['two hits of one measurement in one set', 'coincident time stamps on two ceilometers', 'okta 0 by the buffer',
             'okta 8 by the buffer', 'okta from the binning'],
      assumptions=['statsmodels LOWESS replaced by a stub returning arbitrary finite values (fluffiness is not part of C03)'],
      doc='real metarize(which): n_hits / total / perc / okta with both buffers / monotonicity across sets / code prefix'),
    H('H-amount-fp', h_amount_concrete, quick=[(3, 1, 'layers'), (4, 1, 'layers'), (3, 2, 'layers')],
      thorough=[(3, 1, 'layers'), (4, 1, 'layers'), (3, 2, 'layers')],
      float_model='R', cover=['okta 8 by the buffer', 'okta 0 by the buffer'],
      assumptions=['statsmodels LOWESS replaced by a stub returning arbitrary finite values (fluffiness is not part of C03)'],
      doc='same clauses with the two buffers concrete (0..1 hits, 0..2 holes, chosen by forks): counts and thresholds are concrete on '
          'every path, so the code\'s own arithmetic on them runs in native binary64 (a threshold that is off by one ulp shows)'),
]
get_harness = make_get(HARNESSES)
