"""Shared helpers for the parameter properties C11 / C12 / C13: object-graph snapshots and symbolic parameter dicts."""
from harness.common import *


def containers(obj, seen=None):
    """ids of all mutable containers (dict/list) reachable from obj."""
    seen = {} if seen is None else seen
    if isinstance(obj, (dict, list)) and id(obj) not in seen:
        seen[id(obj)] = obj
        for v in (obj.values() if isinstance(obj, dict) else obj):
            containers(v, seen)
    return seen


def freeze(obj):
    """Structural snapshot: nested tuples; leaves kept as the very objects (identity for symbolic values)."""
    if isinstance(obj, dict):
        return ('dict', tuple((k, freeze(v)) for k, v in obj.items()))
    if isinstance(obj, list):
        return ('list', tuple(freeze(v) for v in obj))
    return ('leaf', obj)


def frozen_equal(a, b):
    """Equality of two snapshots (structure, key order, leaf values)."""
    if a[0] != b[0]:
        return False
    if a[0] == 'leaf':
        x, y = a[1], b[1]
        if x is y:
            return True
        if is_sym(x) or is_sym(y):
            return same_value(x, y)
        return type(x) == type(y) and (x == y or (x != x and y != y))
    if len(a[1]) != len(b[1]):
        return False
    cl = []
    for p, q in zip(a[1], b[1]):
        if a[0] == 'dict':
            if p[0] != q[0]:
                return False
            cl.append(frozen_equal(p[1], q[1]))
        else:
            cl.append(frozen_equal(p, q))
    return And(cl) if cl else True


def leaves(d, path=()):
    out = []
    for k, v in d.items():
        if isinstance(v, dict):
            out += leaves(v, path + (k,))
        else:
            out.append((path + (k,), v))
    return out


def set_leaf(d, path, val):
    for k in path[:-1]:
        d = d[k]
    d[path[-1]] = val


def get_leaf(d, path):
    for k in path:
        d = d[k]
    return d


def percall(E, tag=''):
    """A nested per-call dictionary: a symbolic presence bit and a symbolic value for a selection of keys at every depth,
    plus unknown keys at the top and nested levels."""
    p = {}
    if E.choose(2, tag + 'has_msa'):
        p['MSA'] = E.real(tag + 'p_msa')
    if E.choose(2, tag + 'has_k0'):
        p['MAX_HITS_OKTA0'] = E.int(tag + 'p_k0', 0, None)
    if E.choose(2, tag + 'has_minsep'):
        p['MIN_SEP_VALS'] = [E.real(tag + 'p_sep1'), E.real(tag + 'p_sep2')]
    lvl2 = E.choose(3, tag + 'grouping')
    if lvl2:
        p['GROUPING_PRMS'] = {'dt_scale': E.real(tag + 'p_gdt')}
        if lvl2 == 2:
            p['GROUPING_PRMS']['height_scale_range'] = [E.real(tag + 'p_glo'), E.real(tag + 'p_ghi')]
    lvl3 = E.choose(3, tag + 'layering')
    if lvl3:
        p['LAYERING_PRMS'] = {'gmm_kwargs': {'delta_mul_gain': E.real(tag + 'p_gain')}}
        if lvl3 == 2:
            p['LAYERING_PRMS']['min_okta_to_split'] = E.int(tag + 'p_split', 0, 8)
    if E.choose(2, tag + 'slicing'):
        p['SLICING_PRMS'] = {'height_scale_kwargs': {'min_range': E.real(tag + 'p_minr')}}
    if E.choose(2, tag + 'has_excl'):
        p['EXCLUDE_FOR_BASE_HEIGHT_CALC'] = 'zz'      # a bare string (accepted by the code; tests pass one)
    unk = E.choose(3, tag + 'unknown')
    if unk == 1:
        p['NOT_A_PRM'] = E.real(tag + 'p_unk')
    if unk == 2:
        p.setdefault('LOWESS', {})['not_a_key'] = E.real(tag + 'p_unk')
    return p


PROFILES = [
    ['MSA'], ['MAX_HITS_OKTA0', 'MIN_SEP_VALS'], ['GROUPING_PRMS.dt_scale'], ['GROUPING_PRMS.dt_scale', 'GROUPING_PRMS.height_scale_range'],
    ['LAYERING_PRMS.gmm_kwargs.delta_mul_gain'], ['LAYERING_PRMS.gmm_kwargs.delta_mul_gain', 'LAYERING_PRMS.min_okta_to_split'],
    ['SLICING_PRMS.height_scale_kwargs.min_range'], ['NOT_A_PRM'], ['LOWESS.not_a_key', 'MSA'],
    ['MSA', 'MAX_HITS_OKTA0', 'GROUPING_PRMS.dt_scale', 'LAYERING_PRMS.gmm_kwargs.delta_mul_gain', 'SLICING_PRMS.height_scale_kwargs.min_range'],
]


def percall_profile(E, k, tag=''):
    """Per-call dictionary with the (concrete) key set of profile k and symbolic values."""
    mk = {'MSA': lambda: E.real(tag + 'p_msa'), 'MAX_HITS_OKTA0': lambda: E.int(tag + 'p_k0', 0, None),
          'MIN_SEP_VALS': lambda: [E.real(tag + 'p_sep1'), E.real(tag + 'p_sep2')],
          'GROUPING_PRMS.dt_scale': lambda: E.real(tag + 'p_gdt'),
          'GROUPING_PRMS.height_scale_range': lambda: [E.real(tag + 'p_glo'), E.real(tag + 'p_ghi')],
          'LAYERING_PRMS.gmm_kwargs.delta_mul_gain': lambda: E.real(tag + 'p_gain'),
          'LAYERING_PRMS.min_okta_to_split': lambda: E.int(tag + 'p_split', 0, 8),
          'SLICING_PRMS.height_scale_kwargs.min_range': lambda: E.real(tag + 'p_minr'),
          'NOT_A_PRM': lambda: E.real(tag + 'p_unk'), 'LOWESS.not_a_key': lambda: E.real(tag + 'p_unk2')}
    p = {}
    for key in PROFILES[k]:
        d = p
        parts = key.split('.')
        for part in parts[:-1]:
            d = d.setdefault(part, {})
        d[parts[-1]] = mk[key]()
    return p


def valid_percall(E, p, ordered_range=True):
    """Documented meaning of the leaves (so that the chain can run)."""
    if 'MSA' in p:
        E.assume(p['MSA'] >= 0)
    if 'MIN_SEP_VALS' in p:
        E.assume(And(p['MIN_SEP_VALS'][0] > 0, p['MIN_SEP_VALS'][1] > 0))
    g = p.get('GROUPING_PRMS', {})
    if 'dt_scale' in g:
        E.assume(g['dt_scale'] > 0)
    if 'height_scale_range' in g:
        if ordered_range:
            E.assume(And(g['height_scale_range'][0] > 0, g['height_scale_range'][1] >= g['height_scale_range'][0]))
        else:       # the code takes min() and max() of the pair: either order is a valid way of writing the range
            E.assume(And(g['height_scale_range'][0] > 0, g['height_scale_range'][1] > 0))
    l = p.get('LAYERING_PRMS', {}).get('gmm_kwargs', {})
    if 'delta_mul_gain' in l:
        E.assume(And(l['delta_mul_gain'] > 0, l['delta_mul_gain'] <= 1))
    s = p.get('SLICING_PRMS', {}).get('height_scale_kwargs', {})
    if 'min_range' in s:
        E.assume(s['min_range'] > 0)


class GlobalPrms:
    """Context manager: installs a fresh global parameter dictionary and restores the module afterwards."""

    def __init__(self, d=None):
        self.d = d

    def __enter__(self):
        from ampycloud import dynamic
        self.saved = dynamic.AMPYCLOUD_PRMS
        dynamic.AMPYCLOUD_PRMS = self.d if self.d is not None else dynamic.get_default_prms()
        return dynamic.AMPYCLOUD_PRMS

    def __exit__(self, *a):
        from ampycloud import dynamic
        dynamic.AMPYCLOUD_PRMS = self.saved
