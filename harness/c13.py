"""C13 - concurrent or interleaved chunks with per-call parameters do not interfere (stage granularity)."""
import sys, itertools
from harness.common import *
from harness import pipeline, prm
from harness.prm import freeze, frozen_equal

SPEC = {
    'technique': 'symbolic execution of every interleaving of the stage sequences (construction, find_slices, find_groups, find_layers) '
                 'of two chunks with their own symbolic data and per-call parameters; per-chunk results compared with the isolated '
                 'runs (z3, per path); module-state monitor over all mutable objects reachable from the globals and classes of ampycloud.*',
    'bounds': {'quick': 'two chunks of one hit each on different ceilometers, per-call dictionaries with keys of depth 1 and 3, all 70 '
                        'interleavings of the 4+4 stage calls',
               'thorough': 'as quick plus chunks of 2 hits for one schedule (A B A B A B A B)'},
    'outside': 'CPython thread pre-emption inside a stage and anything inside the C extensions under threads: there is no symbolic scheduler '
               'for Python threads here (this family of technique does not handle concurrency); three chunks',
    'budget_s': {'quick': 1200, 'thorough': 3600},
}
SCHEDULES = sorted(set(itertools.permutations('AAAABBBB')))


def module_state():
    """Frozen snapshot of every mutable container reachable from the globals / class attributes of ampycloud modules."""
    out = {}
    for name, mod in sorted(sys.modules.items()):
        if not (name == 'ampycloud' or name.startswith('ampycloud.')) or mod is None or name.startswith('ampycloud.plots'):
            continue
        for k, v in sorted(vars(mod).items()):
            if k.startswith('__'):
                continue
            if isinstance(v, (dict, list, set)):
                out['%s.%s' % (name, k)] = freeze(sorted(v, key=repr) if isinstance(v, set) else v)
            elif isinstance(v, type) and getattr(v, '__module__', '') == name:
                for a, w in sorted(vars(v).items()):
                    if isinstance(w, (dict, list, set)) and not a.startswith('__'):
                        out['%s.%s.%s' % (name, k, a)] = freeze(sorted(w, key=repr) if isinstance(w, set) else w)
    return out


def _stage(state, who, df, prms):
    from ampycloud.data import CeiloChunk
    from ampycloud.utils import utils
    i = state[who]['i']
    if i == 0:
        orig = utils.check_data_consistency
        utils.check_data_consistency = pipeline._light_checker
        try:
            state[who]['ch'] = CeiloChunk(df, prms=prms)
        finally:
            utils.check_data_consistency = orig
    else:
        getattr(state[who]['ch'], ('find_slices', 'find_groups', 'find_layers')[i - 1])()
    state[who]['i'] = i + 1


def h_interleave(E, n, sched):
    order = SCHEDULES[sched]
    TA = Table(E, n, 1, tag='A', tmin=1, tmax=1, names=['a'])
    TB = Table(E, n, 1, tag='B', tmin=1, tmax=1, names=['b'])
    PA = prm.percall_profile(E, 5, 'A')
    PA['MAX_HITS_OKTA0'] = 0
    PB = prm.percall_profile(E, 0, 'B')
    PB['MAX_HITS_OKTA0'] = 0
    prm.valid_percall(E, PA)
    prm.valid_percall(E, PB)
    with prm.GlobalPrms():
        ms0 = module_state()
        kA, refA, _ = pipeline.run_pipeline(TA.frame(), PA, stub_checker=True)
        kB, refB, _ = pipeline.run_pipeline(TB.frame(), PB, stub_checker=True)
        cl = [('isolated runs end', kA == 'ok' and kB == 'ok')]
        if not cl[0][1]:
            return cl
        sA, sB = pipeline.snapshot(refA), pipeline.snapshot(refB)
        state = {'A': {'i': 0, 'ch': None}, 'B': {'i': 0, 'ch': None}}
        dfA, dfB = TA.frame(), TB.frame()
        with WarningLog():
            kind, err = outcome(lambda: [_stage(state, w, dfA if w == 'A' else dfB, PA if w == 'A' else PB) for w in order])
        E.cover('ran')
        cl.append(('the interleaved stages raise nothing', kind == 'ok'))
        if kind != 'ok':
            E.note('exception', repr(err))
            return cl
        cl.append(('chunk A: same result as when processed alone', pipeline.same_snapshot(pipeline.snapshot(state['A']['ch']), sA)))
        cl.append(('chunk B: same result as when processed alone', pipeline.same_snapshot(pipeline.snapshot(state['B']['ch']), sB)))
        cl.append(('chunk parameters as when processed alone', And(frozen_equal(freeze(state['A']['ch'].prms), freeze(refA.prms)),
                                                                  frozen_equal(freeze(state['B']['ch'].prms), freeze(refB.prms)))))
        ms1 = module_state()
        cl.append(('no module-level or class-level mutable state was written',
                   sorted(ms0) == sorted(ms1) and And([frozen_equal(ms0[k], ms1[k]) for k in ms0])))
    return cl


HARNESSES = [
    H('H-interleave', h_interleave, quick=[(1, s) for s in range(len(SCHEDULES))],
      thorough=[(1, s) for s in range(len(SCHEDULES))] + [(2, 17)], float_model='R',
      cover=['ran'], scripted=True,
      assumptions=['utils.check_data_consistency replaced by a stand-in on the accepted tables (C15)'],
      doc='every interleaving of the stage calls of two chunks: each chunk ends exactly as when processed alone; module state untouched'),
]
get_harness = make_get(HARNESSES)
