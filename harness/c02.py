"""C02 - lowest cloud layer and ceiling are never suppressed; NCD/NSC mean what they say."""
from harness.common import *
from harness import msg as M
from harness import c07, pipeline

SPEC = {
    'technique': 'symbolic execution of CeiloChunk.metar_msg on directly constructed chunks (same exploration shape as '
                 'C01, C02 clause set) plus the high-cloud-flag clause of the MSA cropping harness; per-path unsat',
    'bounds': {'quick': 'tables of 0..3 rows (slices/groups 0..2) x MSA in {None, any real}; okta 0..8; flag free; plus 4-row '
                        'layer tables with bases in [0,1e4] (the statement asks for up to four layers); cropping: tables of <= 3 hits',
               'thorough': 'as quick plus 3-row slices/groups tables, 4-row layer tables without MSA and 5-row layer tables (bases in [0,1e4]); cropping <= 5 hits'},
    'outside': 'tables with more rows than the bound',
    'budget_s': {'quick': 600, 'thorough': 3000},
}


def h_msg_c02(E, k, which, msa_none, low):
    return M.h_msg(E, k, which, msa_none, low, 'C02')


def h_flag(E, N, msa_none, full):
    """The link 'flag <=> more than MAX_HITS_OKTA0 hits were cropped' (clauses of C07's H-crop)."""
    return [c for c in c07.h_crop(E, N, msa_none, full) if 'flag' in c[0] or c[0] == 'no exception']


def h_run(E, N, C, pvar, chk):
    return pipeline.h_run(E, N, C, pvar, chk, 'C02')


from harness.c01 import _sizes, TH_EXTRA  # noqa: E402
HARNESSES = [
    H('H-msg', h_msg_c02, quick=_sizes(3, 4), thorough=_sizes(3, 4) + TH_EXTRA, float_model='R',
      cover=['NCD', 'NSC', '1 groups', '3 groups', 'ceiling above two reported layers'],
      doc='real metar_msg(which): first group = lowest reportable layer, ceiling among the groups, every group a listed '
          'layer, NCD/NSC exactly as stated'),
    H('H-flag', h_flag, quick=[(1, 0, 0), (2, 0, 0), (3, 0, 0), (2, 1, 0)], thorough=[(n, 0, 0) for n in range(1, 6)] + [(3, 1, 0)],
      float_model='R', cover=['flag raised', 'flag not raised with hits above'],
      assumptions=c07.HARNESSES[0].assumptions,
      doc='real _cleanup_pdf: the high-cloud flag is raised exactly when more than MAX_HITS_OKTA0 hits lie above MSA+buffer'),
    H('H-run-msg', h_run, quick=[(1, 1, 2, 0), (2, 1, 2, 0)], thorough=[(1, 1, 2, 0), (2, 1, 2, 0), (2, 2, 2, 0), (2, 1, 0, 0)], float_model='R',
      cover=['two slices', 'NCD', 'NSC'], assumptions=['utils.check_data_consistency replaced by a stand-in on the accepted table (C15)'],
      doc='whole chain with a symbolic MSA, buffer and threshold: each message against the table it was made from and the real high-cloud flag'),
]
get_harness = make_get(HARNESSES)
