"""C04 - base height = configured percentile, inside the layer, never coded upward."""
from harness.common import *
from harness import tables, c18

SPEC = {
    'technique': 'symbolic execution of _calculate_sligrolay_base_height / _calculate_base_height_for_selection / '
                 'utils.calc_base_height / _add_sligrolay_information / metarize through the numpy+pandas models; '
                 'independent percentile / look-back / exclusion oracle; height2code in exact binary64; per-path unsat',
    'bounds': {'quick': 'tables of <= 3 hits (<= 2 sets, 2 ceilometers), any heights and times, percentile in [0,100], '
                        'look-back in (0,100], MAX_HITS_OKTA0 >= 0, exclusion lists [], [a], [a,zz], [a,b]; look-back count in exact binary64 for integer percentages and 1..64 hits; whole metarize() '
                        'for <= 2 hits, also with exclusion list [a] and the statistics / percentile clauses on the finished table; height coding for every binary64 in [0,1e5)',
               'thorough': 'tables of <= 4 hits (no exclusion list at 4 hits); look-back count for 1..200 hits; whole metarize() for <= 3 hits'},
    'outside': 'fluffiness finite and non-negative (LOWESS is a stub whose contract says "finite": not claimed); rounding '
               'inside the percentile interpolation (real-number semantics); the percentile clause is asserted when the '
               'selected hits have pairwise distinct times and the look-back keeps at least one hit',
    'budget_s': {'quick': 900, 'thorough': 3600},
}


def h_base(E, N, C, which, excl):
    return tables.h_metarize(E, N, C, which, excl, 'C04')


def h_tail(E, N, C, which):
    return tables.h_metarize(E, N, C, which, 0, 'C04T')


def h_whole(E, N, C, which, excl):
    return tables.h_metarize(E, N, C, which, excl, 'C04W')


class _Probe:
    """Stands for the time-ordered heights of a set of n hits: records where the look-back slice starts instead of
    materialising it (so the count stays a symbolic binary64 integer, no concretisation)."""

    def __init__(self, n, arr):
        self.n, self.arr, self.start = n, arr, None

    def __len__(self):
        return self.n

    def __getitem__(self, sl):
        assert isinstance(sl, slice) and sl.stop is None and sl.step is None
        self.start = sl.start
        return self.arr


def k_lookback(E, n0, n1):
    """Exact binary64: the number k of most recent hits kept by the look-back, for an integer-valued look-back
    percentage (its documented type) and every hit count n in n0..n1, is floor(n * lookback / 100)."""
    import z3
    from symex.core import SymBool
    from ampycloud.utils import utils
    N = np()
    lb = E.fp('lookback')
    E.assume(And(lb >= 1, lb <= 100, SymBool(z3.fpRoundToIntegral(z3.RNE(), lb.e) == lb.e) if is_sym(lb) else lb == int(lb)))
    cl = []
    for n in range(n0, n1 + 1):
        probe = _Probe(n, N.array([0.0]))
        kind, res = outcome(utils.calc_base_height, probe, lb, 0)
        cl.append(('n=%d: calc_base_height returns' % n, kind == 'ok' and probe.start is not None))
        if kind != 'ok' or probe.start is None:
            continue
        k = -probe.start          # vals[-k:]
        E.cover('look-back keeps a strict subset', And(k >= 1, k < n))
        E.cover('look-back of less than one hit (slice -0: means all)', k == 0)
        cl.append(('n=%d: kept = floor(n*lookback/100)' % n, And(k * 100 <= n * lb, n * lb < (k + 1) * 100)))
    return cl


HARNESSES = [
    H('H-base', h_base, quick=[(1, 1, 'layers', 0), (2, 2, 'layers', 0), (2, 2, 'layers', 1), (3, 2, 'layers', 0),
                               (3, 2, 'layers', 1), (3, 2, 'layers', 2), (3, 2, 'layers', 3), (2, 2, 'slices', 1), (2, 2, 'groups', 1)],
      thorough=[(n, 2, 'layers', x) for n in (1, 2, 3) for x in (0, 1, 2, 3)] + [(4, 2, 'layers', 0), (3, 2, 'slices', 1), (3, 2, 'groups', 1)],
      float_model='R',
      cover=['exclusion applied', 'exclusion fall-back', 'look-back keeps a strict subset'],
      assumptions=['statsmodels LOWESS replaced by a stub returning arbitrary finite values'],
      doc='real base-height and statistics steps of metarize(): enclosure, min/max/mean/std/thickness, base = configured '
          'percentile of the look-back fraction of the (non-excluded, with fall-back) member hits'),
    H('H-tail', h_tail, quick=[(1, 1, 'layers'), (2, 2, 'layers')], thorough=[(1, 1, 'layers'), (2, 2, 'layers'), (3, 2, 'layers'), (2, 2, 'slices')],
      float_model='R', cover=['two hits of one measurement in one set'],
      assumptions=['statsmodels LOWESS replaced by a stub returning arbitrary finite values'],
      doc='whole real metarize(): table sorted by ascending base; coded height is the floor of the base'),
    H('H-whole', h_whole, quick=[(2, 2, 'layers', 1), (2, 2, 'slices', 1)], thorough=[(2, 2, 'layers', 1), (2, 2, 'slices', 1), (2, 2, 'groups', 1), (3, 2, 'layers', 1)],
      float_model='R', cover=['exclusion applied', 'exclusion fall-back'],
      assumptions=['statsmodels LOWESS replaced by a stub returning arbitrary finite values'],
      doc='whole real metarize() with an exclusion list: the H-base clauses (enclosure, min/max/mean/std/thickness over all member '
          'hits, base = percentile of the non-excluded ones) on the finished table'),
    c18.get_harness('K-height'),
    H('K-lookback', k_lookback, quick=[(a, a + 7) for a in range(1, 64, 8)], thorough=[(a, a + 7) for a in range(1, 200, 8)],
      float_model='F', logic='QF_FP', cover=['look-back keeps a strict subset'], query_timeout_ms=600000, slice_s=60,
      doc='real utils.calc_base_height in exact binary64: the look-back count for every integer percentage 1..100 and n hits '
          '(the slice start is captured by a probe object, so the count stays symbolic)'),
]
get_harness = make_get(HARNESSES)
