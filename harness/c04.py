"""C04 - base height = configured percentile, inside the layer, never coded upward."""
from harness.common import *
from harness import tables, c18

SPEC = {
    'technique': 'symbolic execution of _calculate_sligrolay_base_height / _calculate_base_height_for_selection / '
                 'utils.calc_base_height / _add_sligrolay_information / metarize through the numpy+pandas models; '
                 'independent percentile / look-back / exclusion oracle; height2code in exact binary64; per-path unsat',
    'bounds': {'quick': 'tables of <= 3 hits (<= 2 sets, 2 ceilometers), any heights and times, percentile in [0,100], '
                        'look-back in (0,100], MAX_HITS_OKTA0 >= 0, exclusion lists [], [a], [a,zz], [a,b]; whole metarize() '
                        'for <= 2 hits; height coding for every binary64 in [0,1e5)',
               'thorough': 'tables of <= 4 hits (exclusion lists [] and [a] at 4 hits); whole metarize() for <= 3 hits'},
    'outside': 'fluffiness finite and non-negative (LOWESS is a stub whose contract says "finite": not claimed); rounding '
               'inside the percentile interpolation (real-number semantics); the percentile clause is asserted when the '
               'selected hits have pairwise distinct times and the look-back keeps at least one hit',
    'budget_s': {'quick': 900, 'thorough': 3000},
}


def h_base(E, N, C, which, excl):
    return tables.h_metarize(E, N, C, which, excl, 'C04')


def h_tail(E, N, C, which):
    return tables.h_metarize(E, N, C, which, 0, 'C04T')


def k_lookback(E, n0, n1):  # not registered: one n=50 exploration needs > 15 min of QF_FP queries (see DESIGN.md)
    """Exact binary64: the number of most recent hits kept by the look-back, for an integer-valued look-back
    percentage (its documented type) and every hit count in n0..n1, equals floor(n * lookback / 100)."""
    import z3
    from symex.core import SymBool
    from ampycloud.utils import utils
    N = np()
    lb = E.fp('lookback')
    E.assume(And(lb >= 1, lb <= 100, SymBool(z3.fpRoundToIntegral(z3.RNE(), lb.e) == lb.e) if is_sym(lb) else lb == int(lb)))
    cl = []
    for n in range(n0, n1 + 1):
        kind, res = outcome(utils.calc_base_height, N.array([float(i) for i in range(n)]), lb, 0)
        if kind != 'ok':
            cl.append(('look-back of n=%d hits returns' % n, Implies(n * lb >= 100, False)))
            continue
        # with heights 0..n-1 in time order and percentile 0 the result is the oldest hit kept: n - k (0 if k = 0)
        k = n - fval(res)
        E.cover('look-back keeps a strict subset', And(k >= 1, k < n))
        cl.append(('n=%d: kept = floor(n*lookback/100) (all hits when that is 0)' % n,
                   Or(And(k * 100 <= n * lb, n * lb < (k + 1) * 100, k >= 1), And(n * lb < 100, k == n))))
    return cl


HARNESSES = [
    H('H-base', h_base, quick=[(1, 1, 'layers', 0), (2, 2, 'layers', 0), (2, 2, 'layers', 1), (3, 2, 'layers', 0),
                               (3, 2, 'layers', 1), (3, 2, 'layers', 2), (3, 2, 'layers', 3), (2, 2, 'slices', 1), (2, 2, 'groups', 1)],
      thorough=[(n, 2, 'layers', x) for n in (1, 2, 3) for x in (0, 1, 2, 3)] + [(4, 2, 'layers', 0), (4, 2, 'layers', 1), (3, 2, 'slices', 1), (3, 2, 'groups', 1)],
      float_model='R',
      cover=['exclusion applied', 'exclusion fall-back', 'look-back keeps a strict subset'],
      assumptions=['statsmodels LOWESS replaced by a stub returning arbitrary finite values'],
      doc='real base-height and statistics steps of metarize(): enclosure, min/max/mean/std/thickness, base = configured '
          'percentile of the look-back fraction of the (non-excluded, with fall-back) member hits'),
    H('H-tail', h_tail, quick=[(1, 1, 'layers'), (2, 2, 'layers')], thorough=[(1, 1, 'layers'), (2, 2, 'layers'), (3, 2, 'layers'), (2, 2, 'slices')],
      float_model='R', cover=['two hits of one measurement in one set'],
      assumptions=['statsmodels LOWESS replaced by a stub returning arbitrary finite values'],
      doc='whole real metarize(): table sorted by ascending base; coded height is the floor of the base'),
    c18.get_harness('K-height'),
]
get_harness = make_get(HARNESSES)
