"""C17 - significance flags implement the ICAO 1-3-5 rule for every okta sequence."""
import z3
from harness.common import *

SPEC = {
    'technique': 'symbolic execution of icao.significant_cloud on lists of unbounded symbolic ints; '
                 'z3 fold of the 1-3-5 rule as oracle; per-path unsat',
    'bounds': {'quick': 'all integer lists of length 0..8 and of length 13 (values unbounded)',
               'thorough': 'all integer lists of length 0..13 (values unbounded)'},
    'outside': 'lists longer than the bound; non-integer okta values',
    'no_validation': True,
    'budget_s': {'quick': 300, 'thorough': 1500},
}


def spec_flags(oks):
    """The statement, as a fold: flag_i <=> cnt_i < 3 and okta_i >= 1 + 2*cnt_i."""
    cnt, out = 0, []
    for o in oks:
        f = And(cnt < 3, o >= 1 + 2 * cnt)
        out.append(f)
        cnt = cnt + ite(f, 1, 0) if is_sym(f) else cnt + (1 if f else 0)
    return out


def k_icao(E, N):
    from ampycloud import icao
    oks = [E.int('o%d' % i) for i in range(N)]
    arg = list(oks)
    out = icao.significant_cloud(arg)
    clauses = [('one flag per layer', len(out) == N),
               ('argument list not modified', len(arg) == N and all(a is b for a, b in zip(arg, oks)))]
    if len(out) == N:
        sp = spec_flags(oks)
        clauses.append(('flags follow the 1-3-5 rule', And([Iff(a, b) for a, b in zip(out, sp)])))
        if N >= 1:
            E.cover('layer 0 flagged', out[0])
        if N >= 2:
            E.cover('some later layer flagged', out[1])
        if N >= 4:
            E.cover('three flags then a denser layer refused',
                    And(count_true(out[:N - 1]) >= 3, oks[N - 1] >= 7, Not(out[N - 1])))
        # prefix independence: every proper prefix gives the prefix of the flags (2-run)
        for k in range(N):
            pre = icao.significant_cloud(list(oks[:k]))
            clauses.append(('prefix %d independent of the layers above' % k,
                            And(len(pre) == k, And([Iff(a, b) for a, b in zip(pre, out[:k])]))))
        # a second call with the same okta values gives the same flags (no state kept between calls)
        again = icao.significant_cloud(list(oks))
        clauses.append(('repeatable', And(len(again) == N, And([Iff(a, b) for a, b in zip(again, out)]))))
        # callers may edit the returned list; a later call must not see the edit
        if N >= 1:
            out_copy = list(out)
            out.reverse()
            out.append(True)
            third = icao.significant_cloud(list(oks))
            clauses.append(('result independent of edits to an earlier result',
                            And(len(third) == N, And([Iff(a, b) for a, b in zip(third, out_copy)]))))
    return clauses


HARNESSES = [
    H('K-icao', k_icao, quick=[(n,) for n in range(0, 9)] + [(13,)], thorough=[(n,) for n in range(0, 14)],
      cover=['layer 0 flagged', 'some later layer flagged', 'three flags then a denser layer refused'],
      doc='real icao.significant_cloud on N unbounded symbolic ints vs the z3 fold of the statement; '
          'prefix independence and repeatability as 2-run clauses'),
]
get_harness = make_get(HARNESSES)
