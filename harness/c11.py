"""C11 - running never modifies caller data, caller parameters or the global parameters."""
from harness.common import *
from harness import pipeline, prm
from harness.prm import containers, freeze, frozen_equal, leaves, set_leaf, get_leaf

SPEC = {
    'technique': 'symbolic execution of CeiloChunk.__init__ (_setup_prms, utils.adjust_nested_dict, copy.deepcopy, the real '
                 'consistency check) and the three stages with symbolic per-call dictionaries (presence bit and value per key at '
                 'every depth, unknown keys included) over a global dictionary with symbolic leaves; snapshot comparison of the '
                 'caller frame / caller dict / global dict decided by z3; aliasing checked on the heap of every explored path',
    'bounds': {'quick': 'tables of <= 2 hits with an extra column and arbitrary index labels; 11 presence choices over keys of depth '
                        '1, 2 and 3 (432 presence classes), every value symbolic; every leaf of the global edited after construction and '
                        'every leaf of the snapshot edited in turn',
               'thorough': 'as quick (running the chain on 2-hit tables for all 432 presence classes takes half an hour and adds nothing the aliasing clauses depend on)'},
    'outside': 'mutation performed inside a real third-party call on an object ampycloud handed to it (the models do not mutate their arguments); '
               'sharing of a list given per call with the caller (stored by reference on the pinned tree; the statement only requires the caller dict to stay unchanged)',
    'budget_s': {'quick': 1200, 'thorough': 3600},
}


def h_alias(E, N, run_stages):
    from ampycloud.data import CeiloChunk
    from ampycloud import dynamic
    T = Table(E, N, 1, tmin=1, tmax=1)
    idx = [E.int('idx%d' % i) for i in range(N)]
    xs = [E.int('x%d' % i) for i in range(N)]
    df = T.frame(index=idx if shim() else [int(i) for i in idx], extra={'note': xs})
    cols0 = list(df.columns)
    snap_df = {c: col(df, c) for c in cols0}
    snap_idx = list(df.index)
    with prm.GlobalPrms() as G:
        G['MSA_HIT_BUFFER'] = E.real('g_buf')
        G['GROUPING_PRMS']['dt_scale'] = E.real('g_gdt')
        G['LAYERING_PRMS']['gmm_kwargs']['delta_mul_gain'] = E.real('g_gain')
        E.assume(And(G['MSA_HIT_BUFFER'] >= 0, G['GROUPING_PRMS']['dt_scale'] > 0, G['LAYERING_PRMS']['gmm_kwargs']['delta_mul_gain'] > 0,
                     G['LAYERING_PRMS']['gmm_kwargs']['delta_mul_gain'] <= 1))
        P = prm.percall(E)
        prm.valid_percall(E, P, ordered_range=False)
        fz_P, fz_G = freeze(P), freeze(G)
        ids_G = dict(containers(G))
        with WarningLog() as wl:
            kind, ch = outcome(CeiloChunk, df, prms=P)
        cl = [('construction succeeds', kind == 'ok')]
        if kind != 'ok':
            E.note('exception', repr(ch))
            return cl
        E.cover('per-call key of depth 3', 'LAYERING_PRMS' in P or 'SLICING_PRMS' in P)
        E.cover('unknown key', 'NOT_A_PRM' in P or 'not_a_key' in P.get('LOWESS', {}))
        if run_stages:
            with WarningLog():
                k2, _ = outcome(lambda: (ch.find_slices(), ch.find_groups(), ch.find_layers(), ch.metar_msg()))
            cl.append(('the chain runs', k2 == 'ok'))

        def frame_same():
            return list(df.columns) == cols0 and len(df.index) == N and \
                all((a is b) or (not is_sym(a) and a == b) for a, b in zip(list(df.index), snap_idx)) and \
                all(len(col(df, c)) == N and all((a is b) or (not is_sym(a) and same_value(a, b) is True)
                                                 for a, b in zip(col(df, c), snap_df[c])) for c in cols0)
        cl.append(('caller frame unchanged (columns, index, values)', frame_same()))
        cl.append(('caller parameter dictionary unchanged', frozen_equal(freeze(P), fz_P)))
        cl.append(('global parameter dictionary unchanged', frozen_equal(freeze(G), fz_G) and dynamic.AMPYCLOUD_PRMS is G))
        shared = [k for k in containers(ch.prms) if k in containers(G)]
        cl.append(('no mutable container shared between the chunk snapshot and the global dictionary', not shared))
        # the snapshot holds the effective values: per-call where named, global elsewhere; no key added
        eff = []
        for path, v in leaves(G):
            pv = P
            try:
                for k in path:
                    pv = pv[k]
                want = pv
            except (KeyError, TypeError):
                want = v
            eff.append(frozen_equal(freeze(get_leaf(ch.prms, path)), freeze(want)))
        cl.append(('snapshot = global values overridden by exactly the named per-call keys', And(eff)))
        cl.append(('unknown keys are not added', [p for p, _ in leaves(ch.prms)] == [p for p, _ in leaves(G)]))
        # later edits of the global do not reach the chunk
        fz_c = freeze(ch.prms)
        for n_, (path, v) in enumerate(leaves(G)):
            set_leaf(G, path, ['poison', n_])
        for k in list(G):
            if isinstance(G[k], list):
                G[k].append('poison')
        cl.append(('editing the global afterwards does not affect the chunk', frozen_equal(freeze(ch.prms), fz_c)))
    # edits of the snapshot never leak into the global or into chunks built afterwards
    with prm.GlobalPrms() as G2:
        fz_G2 = freeze(G2)
        c1 = CeiloChunk(T.frame(), prms=None)
        for n_, (path, v) in enumerate(leaves(c1.prms)):
            if isinstance(v, list):
                v.append('poison')
            set_leaf(c1.prms, path, ['poison', n_])
        cl.append(('editing the snapshot does not leak into the global', frozen_equal(freeze(G2), fz_G2)))
        k2, c2 = outcome(CeiloChunk, T.frame(), prms=None)
        cl.append(('... nor into a chunk built afterwards', k2 == 'ok' and frozen_equal(freeze(c2.prms), fz_G2)))
        cl.append(('two chunks share no mutable parameter container', k2 == 'ok' and not [k for k in containers(c1.prms) if k in containers(c2.prms)]))
    return cl


HARNESSES = [
    H('H-alias', h_alias, quick=[(1, 1), (2, 0)], thorough=[(1, 1), (2, 0)], float_model='R',
      cover=['per-call key of depth 3', 'unknown key'],
      doc='construct (+ run): caller frame / caller dict / global unchanged, private snapshot, no shared containers, no leaks either way'),
]
get_harness = make_get(HARNESSES)
