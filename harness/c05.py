"""C05 - every hit is accounted for exactly once at every stage."""
from harness.common import *
from harness import pipeline, tables, c07

SPEC = {
    'technique': 'symbolic execution of the three stages on symbolic accepted hit tables (whole chain), on constructed '
                 'post-slicing states (bundle shapes) and on the thirty-hit construction that engages the mixture model, '
                 'with non-deterministic stubs for the clustering / mixture / LOWESS answers; partition invariants per path',
    'bounds': {'quick': 'whole chain: accepted tables of <= 2 hits; post-slicing states of <= 4 hits in <= 3 slices; '
                        'mixture: one group of 30 hits on 3 distinct heights (2 row orders x look-back 20/100), every labelling function, '
                        'score and minimum separation, plus a second group whose id is any non-negative int; metarize(): <= 3 hits',
               'thorough': 'whole chain <= 3 hits; every post-slicing shape of <= 4 hits; all three row orders x look-back 20/50/100 for the mixture'},
    'outside': 'that scikit-learn returns a partition of the samples at all (stub contract); more rows than the bound; '
               'mixture groups with other height patterns than the stated filler',
    'budget_s': {'quick': 1200, 'thorough': 3600},
}


def h_run(E, N, C, pvar, chk):
    return pipeline.h_run(E, N, C, pvar, chk, 'C05')


def h_group(E, shape, pvar):
    return pipeline.h_group(E, shape, pvar, 'C05')


def h_layer(E, order, extra, lbv):
    return pipeline.h_layer(E, order, extra, lbv, 'C05')


def h_crop(E, N, msa_none, full):
    """No hit is lost or altered by the MSA cropping except those above MSA+buffer (clauses of C07's H-crop)."""
    return [c for c in c07.h_crop(E, N, msa_none, full) if c[0].startswith(('no exception', 'every output row', 'rows at/below'))]


def h_tables(E, N, C, which):
    return tables.h_metarize(E, N, C, which, 0, 'C05')


HARNESSES = [
    H('H-run', h_run, quick=[(1, 1, 0, 1), (2, 1, 0, 1), (2, 2, 0, 0), (2, 1, 2, 0)],
      thorough=[(1, 1, 0, 1), (2, 1, 0, 1), (2, 2, 0, 0), (2, 1, 2, 0), (3, 1, 0, 0), (2, 2, 3, 0)], float_model='R',
      cover=['one valid hit', 'only non-detections', 'two slices', 'two slices merged into one group'],
      doc='whole chain: ids -1 exactly on non-detections, tables list exactly the sets present, counts match, each layer '
          'inside one group, hits unaltered'),
    H('H-group', h_group, quick=[('01', 0), ('012', 0), ('001', 0), ('0012', 0), ('g012', 0), ('g001', 0)],
      thorough=[(sh, 0) for sh in ('0', '01', '00', '012', '001', '011', '0012', '0122', '0112', '0123', 'g012', 'g001', 'g0012')],
      float_model='R', cover=['a bundle of overlapping slices', 'an isolated slice'],
      doc='constructed post-slicing state: every hit gets exactly one group id which is the slice id of some hit'),
    H('H-layer', h_layer, quick=[('asc', 0, 100), ('desc', 1, 20), ('desc-gap', 0, 20), ('asc', 2, 100)], thorough=[(o, x, lb) for o in ('asc', 'desc', 'mixed') for x in (0, 1) for lb in (20, 50, 100)] + [('asc', 2, 100), ('desc', 2, 20), ('desc-gap', 0, 20)],
      float_model='R', cover=['group split in 2', 'group split in 3', 'group not split', 'second group with an id of 100 or more', 'both groups split', 'a 3-component group re-merged to 2'], scripted=True,
      doc='thirty-hit group through the mixture model: k sub-components give exactly k layers, no layer spans two groups'),
    H('H-crop', h_crop, quick=[(1, 0, 0), (2, 0, 0), (3, 0, 0)], thorough=[(n, 0, 0) for n in (1, 2, 3, 4)], float_model='R',
      cover=['row above the limit dropped', 'row with NaN height kept'], assumptions=c07.HARNESSES[0].assumptions,
      doc='real _cleanup_pdf: every hit at or below MSA+buffer and every NaN hit survives unaltered, in order'),
    H('H-tables', h_tables, quick=[(2, 2, 'layers'), (2, 1, 'slices'), (3, 1, 'groups')], thorough=[(3, 2, w) for w in ('slices', 'groups', 'layers')],
      float_model='R', cover=['two hits of one measurement in one set'],
      doc='metarize(which) on an arbitrary assignment: table rows = sets present, n_which matches, hits unaltered'),
]
get_harness = make_get(HARNESSES)
