"""C15 - input screening rejects exactly the documented conditions, normalises the rest."""
from harness.common import *

SPEC = {
    'technique': 'symbolic execution of utils.check_data_consistency through the pandas model on symbolic hit tables '
                 '(no acceptance assumption: duplicates and coincidences are in the space); refusal oracle as a z3 '
                 'formula over the rows; per-path unsat; structural refusals enumerated concretely',
    'bounds': {'quick': 'frames of <= 3 rows, 2 ceilometers, heights any real or NaN (negative included), type -1..4, '
                        'optional extra column with arbitrary values, arbitrary (repeated) index labels, type given as '
                        'integral float / dt given as int / type given as int32',
               'thorough': 'every variant at <= 3 rows; 4 rows for the plain variant'},
    'outside': 'dtype coercions other than the three modelled (what astype does to text etc. is pandas behaviour); NaN time stamps',
    'budget_s': {'quick': 900, 'thorough': 3000},
}
REQ = ['ceilo', 'dt', 'height', 'type']


def _dtype_ok(df, c):
    want = {'dt': float, 'height': float, 'type': int}
    if shim():
        t = df.dtypes.get(c)
        return (t == pd().StringDtype()) if c == 'ceilo' else (t is want[c] or getattr(t, '__name__', None) in (want[c].__name__, want[c].__name__ + '_'))
    t = df[c].dtype
    return (t == pd().StringDtype()) if c == 'ceilo' else (t == want[c])


def h_check(E, N, extra, variant):
    from ampycloud.utils import utils
    P = pd()
    T = Table(E, N, 2, accepted=False, hmin=None, hmax=None)
    idx = [E.int('idx%d' % i) for i in range(N)]
    cols = T.cols()
    if variant == 1:      # type given as an integral float column
        cols['type'] = [t * 1.0 if not is_sym(t) else core.SymFloat.of(t) for t in T.type]
    if variant == 2:      # dt given as an int column
        T.dt = [E.int('dti%d' % i) for i in range(N)]
        cols['dt'] = list(T.dt)
    xs = None
    if extra:
        xs = [E.int('x%d' % i) for i in range(N)]
        cols = dict(list(cols.items())[:2] + [('extra', xs)] + list(cols.items())[2:])
    df = frame(cols, index=idx if shim() else [int(i) for i in idx], dtypes=True)
    if shim():
        if variant == 1:
            df.dtypes['type'] = float
        if variant == 2:
            df.dtypes['dt'] = int
        if variant == 3:      # type given as an int32 column (same values, narrower integers)
            from models.pdmodel import NarrowDtype
            df.dtypes['type'] = NarrowDtype('i', 32)
        if extra:
            df.dtypes['extra'] = int
    else:
        if variant == 3:
            df['type'] = df['type'].astype('int32')
        if variant == 1:
            df['type'] = df['type'].astype(float)
        if variant == 2:
            df['dt'] = df['dt'].astype(int)
    snap = {c: col(df, c) for c in cols}
    snap_idx = list(df.index)
    with WarningLog() as w1:
        kind, out = outcome(utils.check_data_consistency, df)
    rej = T.rejected()
    E.cover('refused: duplicated row', And(rej, Or([And(T.same_meas(i, j), T.type[i] == T.type[j]) for i in range(N) for j in range(i)] or [False])))
    E.cover('refused: VV next to a non-detection', Or([And(T.same_meas(i, j), T.type[i] == -1, T.type[j] == 0) for i in range(N) for j in range(N) if i != j] or [False]))
    E.cover('accepted: coincident stamps on two ceilometers', And(Not(rej), Or([And(T.ci[i] != T.ci[j], T.dt[i] == T.dt[j]) for i in range(N) for j in range(i)] or [False])))
    E.cover('accepted: repeated index labels', And(Not(rej), Or([idx[i] == idx[j] for i in range(N) for j in range(i)] or [N < 2])))
    cl = [('AmpycloudError exactly for the documented conditions; no other exception',
           And(Implies(rej, kind == 'AmpycloudError'), Implies(Not(rej), kind == 'ok')))]
    same_arg = all(len(col(df, c)) == N and all((a is b) or (not is_sym(a) and same_value(a, b) is True)
                                                for a, b in zip(col(df, c), snap[c])) for c in cols) \
        and list(df.columns) == list(cols) and len(df.index) == N and \
        all((a is b) or (not is_sym(a) and a == b) for a, b in zip(list(df.index), snap_idx))
    cl.append(('the argument is never touched', same_arg))
    if kind != 'ok':
        return cl
    cl.append(('a new frame is returned', out is not df))
    cl.append(('exactly the four required columns', sorted(out.columns) == sorted(REQ) and
               list(out.columns) == [c for c in cols if c in REQ]))
    if sorted(out.columns) != sorted(REQ):
        return cl
    cl.append(('required dtypes', all(_dtype_ok(out, c) for c in REQ)))
    cl.append(('values unchanged', len(out) == N and And([same_value(fval(a), b) for c in REQ
                                                           for a, b in zip(col(out, c), getattr(T, c))])))
    with WarningLog() as w2:
        kind2, out2 = outcome(utils.check_data_consistency, out)
    ok2 = kind2 == 'ok' and len(out2) == N and list(out2.columns) == list(out.columns)
    cl.append(('checking the checked frame changes nothing', ok2 and And(
        [same_value(fval(a), fval(b)) for c in REQ for a, b in zip(col(out2, c), col(out, c))])))
    cl.append(('... and warns about no column or dtype', not [m for m in w2.messages() if m.startswith('Column')]))
    if extra or variant:
        cl.append(('the superfluous column / wrong dtype is reported by a warning', len([m for m in w1.messages() if m.startswith('Column')]) == bool(extra) + bool(variant)))
    return cl


def h_structural(E):
    from ampycloud.utils import utils
    P = pd()
    E.cover('ran')
    good = frame({'ceilo': ['a'], 'dt': [0.0], 'height': [1000.0], 'type': [1]})
    cl = [('not a DataFrame (%s)' % type(x).__name__, outcome(utils.check_data_consistency, x)[0] == 'AmpycloudError')
          for x in ([1, 2], None, 'abc', {'ceilo': ['a']})]
    cl.append(('empty frame', outcome(utils.check_data_consistency, good[good['type'] > 5])[0] == 'AmpycloudError'))
    for c in REQ:
        cl.append(('missing column %s' % c, outcome(utils.check_data_consistency, good[[x for x in REQ if x != c]])[0] == 'AmpycloudError'))
    cl.append(('valid one-row frame accepted', outcome(utils.check_data_consistency, good)[0] == 'ok'))
    return cl


HARNESSES = [
    H('H-check', h_check, quick=[(1, 0, 0), (2, 0, 0), (2, 1, 0), (2, 0, 1), (2, 0, 2), (2, 0, 3), (3, 0, 0), (3, 1, 0)],
      thorough=[(n, x, v) for n in (1, 2, 3) for x in (0, 1) for v in (0, 1, 2)] + [(4, 0, 0), (1, 0, 3), (2, 0, 3), (2, 1, 3), (3, 0, 3)],
      float_model='R',
      cover=['refused: duplicated row', 'refused: VV next to a non-detection', 'accepted: coincident stamps on two ceilometers',
             'accepted: repeated index labels'],
      doc='real check_data_consistency: refusal <=> duplicated row or 0/non-0 or VV/non-VV within one (ceilometer,time); '
          'otherwise new 4-column frame, dtypes, values, argument untouched, idempotent without column/dtype warnings'),
    H('H-structural', h_structural, quick=[()], thorough=[()], cover=['ran'],
      doc='the structural refusals (not a DataFrame, empty, each missing column): concrete enumeration'),
]
get_harness = make_get(HARNESSES)
