"""The whole pipeline on small symbolic tables: real CeiloChunk(...) -> find_slices -> find_groups ->
find_layers -> metar_msg, scikit-learn / statsmodels stubbed (shim world) or real (replays)."""
from harness.common import *
from harness import tables

WHICH = ('slices', 'groups', 'layers')


def sym_prms(E, pvar, tag=''):
    """Per-call parameter dictionary with the leaves selected by pvar symbolic (documented meaning kept)."""
    p = {'MSA': None, 'MAX_HITS_OKTA0': 0}
    if pvar == 1:
        lb, q = E.real(tag + 'lookback'), E.real(tag + 'perc')
        E.assume(And(lb > 0, lb <= 100, q >= 0, q <= 100))
        p.update(BASE_LVL_LOOKBACK_PERC=lb, BASE_LVL_HEIGHT_PERC=q, MAX_HITS_OKTA0=E.int(tag + 'k0', 0, None),
                 MAX_HOLES_OKTA8=E.int(tag + 'k8', 0, None))
    elif pvar == 2:
        msa, buf = E.real(tag + 'msa'), E.real(tag + 'buffer')
        E.assume(And(msa >= 0, buf >= 0))
        p.update(MSA=msa, MSA_HIT_BUFFER=buf, MAX_HITS_OKTA0=E.int(tag + 'k0', 0, None))
    elif pvar == 3:
        v = {k: E.real(tag + k) for k in ('s_thr', 's_dt', 's_minr', 'g_pad', 'g_dt', 'g_lo', 'g_hi')}
        E.assume(And(v['s_thr'] > 0, v['s_dt'] > 0, v['s_minr'] > 0, v['g_pad'] >= 0, v['g_dt'] > 0, v['g_lo'] > 0,
                     v['g_hi'] >= v['g_lo']))
        p.update(SLICING_PRMS={'distance_threshold': v['s_thr'], 'dt_scale': v['s_dt'],
                               'height_scale_kwargs': {'min_range': v['s_minr']}},
                 GROUPING_PRMS={'height_pad_perc': v['g_pad'], 'dt_scale': v['g_dt'], 'height_scale_range': [v['g_lo'], v['g_hi']]})
    elif pvar == 4:
        s1, s2, l1 = E.real(tag + 'sep1'), E.real(tag + 'sep2'), E.real(tag + 'lim1')
        E.assume(And(s1 > 0, s2 > 0))
        p.update(MIN_SEP_VALS=[s1, s2], MIN_SEP_LIMS=[l1])
    elif pvar == 5:
        p.update(EXCLUDE_FOR_BASE_HEIGHT_CALC=['a'], MAX_HITS_OKTA0=E.int(tag + 'k0', 0, None))
    elif pvar == 6:
        s1, s2, l1, q = E.real(tag + 'sep1'), E.real(tag + 'sep2'), E.real(tag + 'lim1'), E.real(tag + 'perc')
        E.assume(And(s1 > 0, s2 > 0, q >= 0, q <= 100))
        p.update(MIN_SEP_VALS=[s1, s2], MIN_SEP_LIMS=[l1], EXCLUDE_FOR_BASE_HEIGHT_CALC=['a'],
                 MAX_HITS_OKTA0=E.int(tag + 'k0', 0, None), BASE_LVL_HEIGHT_PERC=q)
    return p


def snapshot(ch):
    """Everything observable of a chunk: per-hit table, the three tables, the three messages."""
    out = {'data': {c: [fval(x) for x in col(ch.data, c)] for c in ch.data.columns}, 'cols': list(ch.data.columns)}
    for w in WHICH:
        t = getattr(ch, w)
        out[w] = None if t is None else {c: [fval(x) for x in col(t, c)] for c in t.columns}
        try:
            out['msg_' + w] = ch.metar_msg(w) if t is not None else None
        except core.EngineSignal:
            raise
        except Exception as e:
            out['msg_' + w] = 'EXC:' + type(e).__name__
    out['n'] = [ch.n_slices, ch.n_groups, ch.n_layers]
    out['flag'] = ch.clouds_above_msa_buffer
    return out


def same_table(a, b, skip=()):
    if (a is None) != (b is None):
        return False
    if a is None:
        return True
    if list(a) != list(b):
        return False
    cl = []
    for c in a:
        if c in skip:
            continue
        if len(a[c]) != len(b[c]):
            return False
        for x, y in zip(a[c], b[c]):
            cl.append(tables.same_code(x, y) if isinstance(x, str) and isinstance(y, str) else same_value(x, y))
    return And(cl) if cl else True


def same_snapshot(a, b, skip_cols=()):
    cl = [same_table(a['data'], b['data'], skip_cols)]
    for w in WHICH:
        cl.append(same_table(a[w], b[w]))
        ma, mb = a['msg_' + w], b['msg_' + w]
        cl.append(tables.same_code(ma, mb) if isinstance(ma, str) and isinstance(mb, str) else ma is mb)
    cl.append(a['n'] == b['n'])
    cl.append(Iff(a['flag'], b['flag']))
    return And(cl)


def _light_checker(pdf, req_cols=None):
    """Stand-in for utils.check_data_consistency on tables already assumed accepted (its contract is C15):
    a new frame with the four required columns and the same values."""
    import copy
    data = copy.deepcopy(pdf)
    for c in list(data.columns):
        if c not in ('ceilo', 'dt', 'height', 'type'):
            data.drop(c, axis=1, inplace=True)
    return data


LAST_WARNINGS = []      # messages of the warnings raised during the last run_pipeline() call


class _Tee:
    def __init__(self, log): self._log = log
    def __iter__(self): return iter(self._log)


def run_pipeline(df, prms, upto=3, stub_checker=False):
    """Returns (outcome kind, chunk or exception, stage reached). The warnings raised are left in LAST_WARNINGS."""
    from ampycloud.data import CeiloChunk
    from ampycloud.utils import utils
    stage = 'init'
    orig = utils.check_data_consistency
    LAST_WARNINGS[:] = []
    with WarningLog() as wl:
        try:
            if stub_checker:
                utils.check_data_consistency = _light_checker
            try:
                ch = CeiloChunk(df, prms=prms)
            finally:
                utils.check_data_consistency = orig
            if upto >= 1:
                stage = 'find_slices'
                ch.find_slices()
            if upto >= 2:
                stage = 'find_groups'
                ch.find_groups()
            if upto >= 3:
                stage = 'find_layers'
                ch.find_layers()
            res = ('ok', ch, stage)
        except core.EngineSignal:
            raise
        except Exception as e:  # noqa: BLE001
            res = (type(e).__name__, e, stage)
        LAST_WARNINGS[:] = wl.messages()
    return res


def inv_ids(E, ch, T, cl):
    """Inv_S / Inv_G / Inv_L on a fully processed chunk (clauses appended to cl)."""
    d = ch.data
    n = len(d)
    hs = [fval(x) for x in col(d, 'height')]
    for c in ('ceilo', 'dt', 'type'):
        pass
    sid, gid, lid = ([fval(x) for x in col(d, c)] for c in ('slice_id', 'group_id', 'layer_id'))
    for name, ids in (('slice', sid), ('group', gid), ('layer', lid)):
        cl.append(('%s id: -1 exactly on non-detections, >= 0 on valid hits' % name,
                   And([Iff(isnan(h), i == -1) for h, i in zip(hs, ids)] + [Or(i == -1, i >= 0) for i in ids])))
    for w, ids in zip(WHICH, (sid, gid, lid)):
        t = getattr(ch, w)
        present = sorted(set(int(i) for i in ids if int(i) >= 0))
        cl.append(('%s table lists exactly the sets present; n_%s matches' % (w, w),
                   sorted(int(x) for x in col(t, 'cluster_id')) == present and getattr(ch, 'n_' + w) == len(present)))
    cl.append(('every group id is the slice id of some hit', all(int(g) in [int(s) for s in sid] for g in gid)))
    # each layer lies inside exactly one group
    for l in set(int(x) for x in lid if int(x) >= 0):
        gs = set(int(g) for g, x in zip(gid, lid) if int(x) == l)
        cl.append(('layer %d lies inside exactly one group' % l, len(gs) == 1))
    g = ch.groups
    for r in range(len(g)):
        cid, nc = int(col(g, 'cluster_id')[r]), int(col(g, 'ncomp')[r])
        nl = len(set(int(x) for x, gg in zip(lid, gid) if int(gg) == cid))
        cl.append(('group %d with ncomp=%d yields %d layer(s)' % (cid, nc, max(1, nc)), nl == max(1, nc)))


def h_run(E, N, C, pvar, chk, prop):
    if shim():
        from models import stubs
        # from 3 hits on, the exact single-linkage characterisation (products of symbolic scales) makes z3 give up:
        # the per-bundle clustering then returns an arbitrary partition (over-approximation)
        stubs.OPTIONS['single_exact'] = N <= 2
    T = Table(E, N, C)
    prms = sym_prms(E, pvar)
    df = T.frame()
    kind, ch, stage = run_pipeline(df, prms, stub_checker=not chk)
    E.cover('one valid hit', count_true([Not(isnan(h)) for h in T.height]) == 1)
    E.cover('only non-detections', And([isnan(h) for h in T.height]))
    E.cover('type-1 hit with NaN height (warning-only anomaly)', Or([And(t == 1, isnan(h)) for t, h in zip(T.type, T.height)]))
    E.cover('type-0 hit with a height (warning-only anomaly)', Or([And(t == 0, Not(isnan(h))) for t, h in zip(T.type, T.height)]))
    cl = [('run() terminates without any exception [stage %s]' % stage, kind == 'ok')]
    if kind != 'ok':
        E.note('exception', '%s at %s: %s' % (kind, stage, str(ch)[:300]))
        return cl
    msgs = {}
    for w in WHICH:
        k2, m = outcome(ch.metar_msg, w)
        msgs[w] = m
        cl.append(('metar_msg(%s) returns a string' % w, k2 == 'ok' and isinstance(m, str)))
    if N >= 2:
        E.cover('two slices', ch.n_slices == 2)
        E.cover('two slices merged into one group', ch.n_slices == 2 and ch.n_groups == 1)
    if prop == 'C08':
        return cl
    if prop in ('C01', 'C02'):
        # end to end: the message of each level against the table it was made from
        from harness import msg as M
        cl2 = [c for c in cl[:1]]
        for w in WHICH:
            t = getattr(ch, w)
            if not isinstance(msgs[w], str):
                continue
            okta = [int(fval(x)) for x in col(t, 'okta')]
            base = [fval(x) for x in col(t, 'height_base')]
            codes = col(t, 'code')
            for name, c in M.message_clauses(E, prop, okta, base, ch.msa, ch.clouds_above_msa_buffer, msgs[w], codes, M.atoms_of_codes(codes)):
                cl2.append(('%s [%s]' % (name, w), c))
        return cl2
    if prop == 'C05':
        cl2 = [c for c in cl[:1]]
        # no MSA cropping in pvar != 2: all rows present and unaltered, in order
        if prms.get('MSA') is None:
            d = ch.data
            cl2.append(('no hit created or lost', len(d) == N))
            if len(d) == N:
                for c in ('ceilo', 'dt', 'height', 'type'):
                    cl2.append(('hits unaltered (%s)' % c, And([same_value(fval(a), b) for a, b in zip(col(d, c), getattr(T, c))])))
        inv_ids(E, ch, T, cl2)
        return cl2
    if prop == 'C06':
        cl2 = [c for c in cl[:1]]
        g = ch.groups
        hb = [fval(x) for x in col(g, 'height_base')]
        p = ch.prms
        for r in range(1, len(hb)):
            lims, vals = p['MIN_SEP_LIMS'], p['MIN_SEP_VALS']
            sep = vals[-1]
            for j in range(len(lims) - 1, -1, -1):
                sep = ite(hb[r] <= lims[j], vals[j], sep) if is_sym(hb[r] <= lims[j]) else (vals[j] if hb[r] <= lims[j] else sep)
            cl2.append(('groups %d,%d at least the minimum separation apart' % (r - 1, r), hb[r] - hb[r - 1] >= sep))
            E.cover('two groups reported')
        return cl2
    return cl


def h_group(E, shape, pvar, prop):
    """State after slicing constructed directly: slice ids given by `shape` (one character per hit)."""
    if shim():
        from models import stubs
        stubs.OPTIONS['single_exact'] = False
    # a leading 'g' asks for the index labels the MSA cropping leaves behind when it drops an earlier row
    # (labels 0, 2, 3, ...: label != position)
    gapped = shape.startswith('g')
    shape = shape.lstrip('g')
    N = len(shape)
    hs = [E.real('h%d' % i) for i in range(N)]
    ds = [E.real('dt%d' % i) for i in range(N)]
    for i in range(N):
        E.assume(And(hs[i] >= 0, hs[i] < 100000))
        if i:
            E.assume(ds[i - 1] < ds[i])
    sid = [int(c) for c in shape]
    prms = default_prms()
    from ampycloud.utils import utils
    prms = utils.adjust_nested_dict(prms, sym_prms(E, pvar))
    names = ['a'] * N
    if prms['EXCLUDE_FOR_BASE_HEIGHT_CALC']:
        names = [NAMES[E.choose(2, 'ceilo%d' % i)] for i in range(N)]
    data = frame({'ceilo': names, 'dt': ds, 'height': hs, 'type': [1] * N, 'slice_id': sid},
                 index=([0] + list(range(2, N + 1))) if gapped else None)
    ch = new_chunk(data, prms)
    stage = 'metarize(slices)'
    try:
        with WarningLog():
            ch.metarize('slices')
            stage = 'find_groups'
            ch.find_groups()
        kind, err = 'ok', None
    except core.EngineSignal:
        raise
    except Exception as e:  # noqa: BLE001
        kind, err = type(e).__name__, e
    cl = [('metarize(slices) + find_groups() raise nothing [stage %s]' % stage, kind == 'ok')]
    if ch.slices is not None and 'isolated' in ch.slices.columns and kind == 'ok':
        iso = [bool(x) for x in col(ch.slices, 'isolated')]
        E.cover('an isolated slice', any(iso))
        E.cover('a bundle of overlapping slices', not all(iso))
        nh = [int(x) for x in col(ch.slices, 'n_hits')]
        E.cover('a bundle left with a single one-hit slice', len(iso) >= 3 and sum(1 for x in iso if not x) >= 3 and 1 in nh)
    if kind != 'ok':
        E.note('exception', '%s at %s: %s' % (kind, stage, str(err)[:300]))
        return cl
    if prop == 'C08':
        return cl
    gid = [int(x) for x in col(ch.data, 'group_id')]
    if prop == 'C05':
        cl.append(('every hit has exactly one group id, which is the slice id of some hit', all(g in sid for g in gid)))
        t = ch.groups
        cl.append(('groups table lists exactly the groups present; n_groups matches',
                   sorted(int(x) for x in col(t, 'cluster_id')) == sorted(set(gid)) and ch.n_groups == len(set(gid))))
        cl.append(('hits unaltered', And([same_value(fval(a), b) for a, b in zip(col(ch.data, 'height'), hs)] +
                                          [same_value(fval(a), b) for a, b in zip(col(ch.data, 'dt'), ds)]) and
                   [int(x) for x in col(ch.data, 'slice_id')] == sid))
    if prop == 'C06':
        hb = [fval(x) for x in col(ch.groups, 'height_base')]
        p = ch.prms
        lims, vals = p['MIN_SEP_LIMS'], p['MIN_SEP_VALS']
        for r in range(1, len(hb)):
            sep = vals[-1]
            for j in range(len(lims) - 1, -1, -1):
                c = hb[r] <= lims[j]
                sep = ite(c, vals[j], sep) if is_sym(c) else (vals[j] if c else sep)
            cl.append(('groups %d,%d at least the minimum separation apart' % (r - 1, r), hb[r] - hb[r - 1] >= sep))
            E.cover('two groups reported')
        E.cover('a merge happened', len(set(gid)) < len(set(sid)))
    return cl


# ---------------------------------------------------------------------------------------------
# H-layer: the thirty-hit construction (DESIGN.md 2.6)
# ---------------------------------------------------------------------------------------------
FILL_H = [1000.0] * 12 + [1100.0] * 12 + [1500.0] * 6        # oldest ... most recent


def gmm_stub(n, X, kind):
    """Mixture stub: predict = arbitrary function of the sample value into 0..n-1 (components may stay
    unpopulated, issue #119); bic/aic = arbitrary finite reals."""
    from models import stubs, npmodel
    E = core.ENG
    stubs.ASSUMPTIONS.add('GaussianMixture: predict is an arbitrary function of the sample value into 0..n-1 '
                          '(possibly leaving components unpopulated); bic/aic are arbitrary finite reals; deterministic')
    if kind != 'predict':
        v = E.stub_real('gmm_%s_%d' % (kind, n))
        if n == 1:
            stubs.ASSUMPTIONS.add('GaussianMixture: the score of the one-component model is positive (true for samples '
                                  'rescaled to span [0, 100], the default rescale_0_to_x, and fewer than ~10^4 samples: the '
                                  'single Gaussian then has a density below 1 everywhere). With negative scores the #119 '
                                  'guard of ncomp_from_gmm (score := max + 1) would not rule an unpopulated model out.')
            E.assume(v > 0)
        return v
    vals = stubs.flat(X)
    lab = {}
    out = []
    for v in vals:
        k = stubs._key(v)
        if k not in lab:
            lab[k] = E.stub_choose(n, 'gmm%d' % n)
        out.append(lab[k])
    return stubs.A(out)


def h_layer(E, order, extra_group, lbv, prop):
    """Inv_G-shaped state with one group of 30 hits (3 distinct heights) and optionally a second one-hit group whose id
    is an arbitrary non-negative int (row-count abstraction); real metarize('groups') + find_layers()."""
    from ampycloud import layer as layer_mod
    from models import stubs
    stubs.OPTIONS['gmm'] = gmm_stub
    gapped = order.endswith('-gap')      # index labels as left behind by the MSA cropping (label != position)
    order = order.replace('-gap', '')
    n = len(FILL_H)
    hs = list(FILL_H)
    ds = [-15.0 * (n - 1 - i) for i in range(n)]
    rows = list(range(n))
    if order == 'desc':
        rows = rows[::-1]
    elif order == 'mixed':
        rows = rows[1::2] + rows[0::2]
    hs, ds = [hs[i] for i in rows], [ds[i] for i in rows]
    gid = [0] * n
    prms = default_prms()
    # look-back and percentile are concrete per exploration (size vector): symbolic values would multiply the
    # paths by the number of breakpoints of floor(n*lookback/100) and of the percentile index (> 1000)
    lb, q, sep = lbv, 5, E.real('min_sep')
    E.assume(sep > 0)
    prms.update(MSA=None, BASE_LVL_LOOKBACK_PERC=lb, BASE_LVL_HEIGHT_PERC=q, MIN_SEP_VALS=[sep], MIN_SEP_LIMS=[])
    g2 = None
    if extra_group == 1:
        g2 = E.int('g2', 1, None)
        hs.append(9000.0)
        ds.append(-7.0)
        gid.append(g2)
    if extra_group == 2:
        # a second 30-hit group: the first one shifted by 5000 ft (same rescaled samples, hence - the mixture model being
        # deterministic - the same labelling and scores): two split groups, both re-merged alike
        hs = hs + [h + 5000.0 for h in hs]
        ds = ds + [d - 0.5 for d in ds]
        gid = gid + [1] * n
    N = len(hs)
    data = frame({'ceilo': ['a'] * N, 'dt': ds, 'height': hs, 'type': [1] * N, 'slice_id': list(gid), 'group_id': list(gid)},
                 index=([0] + list(range(2, N + 1))) if gapped else None)
    ch = new_chunk(data, prms)
    ch._slices = 'computed'
    stage = 'metarize(groups)'
    try:
        with WarningLog():
            ch.metarize('groups')
            stage = 'find_layers'
            ch.find_layers()
        kind, err = 'ok', None
    except core.EngineSignal:
        raise
    except Exception as e:  # noqa: BLE001
        kind, err = type(e).__name__, e
    cl = [('metarize(groups) + find_layers() raise nothing [stage %s]' % stage, kind == 'ok')]
    if kind != 'ok':
        E.note('exception', '%s at %s: %s' % (kind, stage, str(err)[:300]))
        return cl
    g = ch.groups
    gc = [fval(x) for x in col(g, 'cluster_id')]
    r0 = [i for i, c in enumerate(gc) if not is_sym(c) and int(c) == 0][0]
    ncomp = int(col(g, 'ncomp')[r0])
    lid = [fval(x) for x in col(ch.data, 'layer_id')]
    lay0 = []
    for x in lid[:n]:
        if not any(bool(sbool(x == y)) for y in lay0):
            lay0.append(x)
    E.cover('group split in 2', ncomp == 2)
    E.cover('group split in 3', ncomp == 3)
    E.cover('group not split', ncomp <= 1)
    if prop == 'C08':
        return cl
    if prop == 'C05' and extra_group == 2:
        lids = [int(x) for x in lid]
        gids = [int(x) for x in col(ch.data, 'group_id')]
        for l in sorted(set(lids)):
            cl.append(('layer %d lies inside exactly one group' % l, len(set(g for g, x in zip(gids, lids) if x == l)) == 1))
        for r in range(len(gc)):
            nc = int(col(g, 'ncomp')[r])
            cl.append(('group %d with ncomp=%d yields exactly that many layers (one if not split)' % (int(gc[r]), nc),
                       len(set(x for g_, x in zip(gids, lids) if g_ == int(gc[r]))) == max(1, nc)))
        cl.append(('n_layers and the layers table match the assignment', ch.n_layers == len(set(lids)) and len(ch.layers) == len(set(lids))))
        E.cover('both groups split', all(int(x) > 1 for x in col(g, 'ncomp')))
        E.cover('a 3-component group re-merged to 2', [c[1] for c in stubs.CALLS if c[0] == 'gmm_predict'][-1:] == [3] and ncomp == 2)
        return cl
    if prop == 'C05':
        cl.append(('a group reported with k sub-components yields exactly k layers (one if not split)', len(lay0) == max(1, ncomp)))
        if g2 is not None:
            l2 = lid[n]
            cl.append(('no layer spans two groups (generated ids never meet an inherited id)', And([Not(x == l2) for x in lay0])))
            cl.append(('n_layers and the layers table match the assignment',
                       ch.n_layers == len(lay0) + 1 and len(ch.layers) == len(lay0) + 1))
            E.cover('second group with an id of 100 or more', g2 >= 100)
        else:
            cl.append(('n_layers and the layers table match the assignment', ch.n_layers == len(lay0) and len(ch.layers) == len(lay0)))
        cl.append(('hits unaltered', [fval(x) for x in col(ch.data, 'height')] == hs and [fval(x) for x in col(ch.data, 'dt')] == ds))
        return cl
    if prop == 'C06' and ncomp > 1:
        if shim() or core.ENG.vals.get('#scripted'):
            # the last predict call of ncomp_from_gmm is the one of the raw best model
            raw = [c[1] for c in stubs.CALLS if c[0] == 'gmm_predict'][-1]
        else:
            import numpy
            res = layer_mod.ncomp_from_gmm(numpy.array(FILL_H), ncomp_max=3, min_sep=0,
                                           **ch.prms['LAYERING_PRMS']['gmm_kwargs'])
            raw = int(res[0])
        E.cover('split without re-merge', ncomp == raw)
        if ncomp == raw:
            lt = ch.layers
            lc = [fval(x) for x in col(lt, 'cluster_id')]
            hb = [fval(b) for b, c in zip(col(lt, 'height_base'), lc) if any(bool(sbool(c == y)) for y in lay0)]
            for i in range(len(hb)):
                for j in range(i):
                    d = hb[i] - hb[j]
                    cl.append(('layers of the split group at least min_sep apart', Or(d >= sep, -d >= sep)))
    return cl
