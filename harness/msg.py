"""H-msg: real CeiloChunk.metar_msg on a directly constructed chunk (shared by C01 and C02)."""
import re
from harness.common import *
from symex.core import decode_fragments, SymInt

ABBR = ('FEW', 'SCT', 'BKN', 'OVC')
RANK = {'FEW': 1, 'SCT': 3, 'BKN': 5, 'OVC': 8}


def parse_msg(msg):
    """-> list of groups; a group is (abbr or None, value or None, atom index or None, wellformed)."""
    if shim():
        groups, cur = [], []
        for piece in decode_fragments(msg):
            if isinstance(piece, str):
                parts = piece.split(' ')
                for n, part in enumerate(parts):
                    if n > 0:
                        groups.append(cur)
                        cur = []
                    if part != '':
                        cur.append(part)
                    elif n > 0 and n < len(parts) - 1:
                        cur.append('')       # double blank
            else:
                cur.append(piece)
        groups.append(cur)
        out = []
        for g in groups:
            if len(g) == 2 and isinstance(g[0], str) and g[0] in ABBR and not isinstance(g[1], str):
                val, spec = g[1]
                wf = And(val >= 0, val <= 999) if spec == '03' else False
                out.append((g[0], val, [n for n, a in enumerate(core.ENG.atoms) if a is g[1]][0], wf))
            else:
                out.append((None, None, None, False))
        return out
    out = []
    for g in msg.split(' '):
        m = re.fullmatch(r'(FEW|SCT|BKN|OVC)(\d{3})', g)
        out.append((m.group(1), int(m.group(2)), None, True) if m else (None, None, None, False))
    return out


def build_chunk(E, k, which, msa_none, low=0):
    """A chunk whose `which` table has k rows with symbolic okta / base, as metarize() leaves it."""
    from ampycloud import icao, wmo
    P = pd()
    okta = [E.int('okta%d' % i, 0, 8) for i in range(k)]
    base = [E.real('base%d' % i) for i in range(k)]
    for i, b in enumerate(base):
        E.assume(And(b >= 0, b < (10000 if low else 100000)))
        if i:
            E.assume(base[i - 1] <= b)
    prms = default_prms()
    msa = None
    if not msa_none:
        msa = E.real('msa')
        prms['MSA'] = msa
    else:
        prms['MSA'] = None
    flag = E.bool('flag')
    sig = icao.significant_cloud(list(okta))
    codes, atom_of_row = [], []
    for i in range(k):
        n0 = len(core.ENG.atoms)
        abbr = wmo.okta2code(okta[i])
        codes.append(abbr + wmo.height2code(base[i]))
        atom_of_row.append(n0 if shim() and len(core.ENG.atoms) > n0 else None)
    idcol = which[:-1] + '_id'
    ids = list(range(k))
    data = frame({'ceilo': ['a'] * (k + 1), 'dt': [float(-i) for i in range(k + 1)],
                  'height': list(base) + [float('nan')], 'type': [1] * k + [0],
                  'slice_id': ids + [-1], 'group_id': ids + [-1], 'layer_id': ids + [-1]})
    cols = {'n_hits': [1] * k, 'perc': [E.real('perc%d' % i) for i in range(k)], 'okta': list(okta),
            'height_base': list(base), 'height_mean': list(base), 'height_std': [float('nan')] * k,
            'height_min': list(base), 'height_max': list(base), 'thickness': [0.0] * k, 'fluffiness': [0.0] * k,
            'code': list(codes), 'significant': list(sig), 'cluster_id': list(ids)}
    if which == 'slices':
        cols['isolated'] = [True] * k
    if which == 'groups':
        cols['ncomp'] = [-1] * k
    table = P.DataFrame({c: v for c, v in cols.items()}) if k else P.DataFrame(index=range(0), columns=list(cols))
    ch = new_chunk(data, prms, flag)
    setattr(ch, '_' + which, table)
    if which != 'slices':
        ch._slices = table
    if which == 'layers':
        ch._groups = table
    return ch, dict(okta=okta, base=base, msa=msa, flag=flag, sig=sig, codes=codes, atom_of_row=atom_of_row, k=k)


def h_msg(E, k, which, msa_none, low, prop):
    ch, S = build_chunk(E, k, which, msa_none, low)
    kind, msg = outcome(ch.metar_msg, which)
    cl = [('returns a string', kind == 'ok' and isinstance(msg, str))]
    if kind != 'ok' or not isinstance(msg, str):
        E.note('outcome', repr(msg))
        return cl
    return cl + message_clauses(E, prop, S['okta'], S['base'], S['msa'], S['flag'], msg, S['codes'], S['atom_of_row'])


def atoms_of_codes(codes):
    """For each code string of a table: index of the formatted-integer atom it carries (shim world), else None."""
    out = []
    for c in codes:
        idx = None
        if shim() and isinstance(c, str):
            for piece in decode_fragments(c):
                if not isinstance(piece, str):
                    idx = [n for n, a in enumerate(core.ENG.atoms) if a is piece][0]
        out.append(idx)
    return out


def message_clauses(E, prop, okta, base, msa, flag, msg, codes, atom_of_row):
    """The C01 / C02 clause sets for a message `msg` produced from a table with the given okta / base / code columns
    (rows in table order), the MSA (None = no limit) and the high-cloud flag."""
    k = len(okta)
    cl = []
    below = [True if msa is None else b < msa for b in base]
    inR = [And(o >= 1, bl) for o, bl in zip(okta, below)]
    anyR = Or(inR) if inR else False
    cloud_above = Or([And(o >= 1, Not(bl)) for o, bl in zip(okta, below)]) if k else False
    if msg in ('NCD', 'NSC'):
        E.cover(msg)
        if prop == 'C01':
            return cl + [('NCD / NSC verbatim', True)]
        cl.append(('%s only when nothing is reportable below the MSA' % msg, Not(anyR)))
        if msg == 'NCD':
            cl.append(('NCD only if no layer reaches 1 okta and the high-cloud flag is down',
                       And(And([o == 0 for o in okta]) if k else True, Not(flag))))
        else:
            cl.append(('NSC only if cloud exists (a layer >= 1 okta at/above the MSA, or the flag)',
                       Or(flag, cloud_above)))
        return cl
    groups = parse_msg(msg)
    E.cover('%d groups' % len(groups))
    cl.append(('one to three groups', 1 <= len(groups) <= 3))
    cl.append(('every group is FEW/SCT/BKN/OVC + three digits, single blanks', And([g[3] for g in groups])))
    if not all(g[0] for g in groups):
        return cl
    # which table row does each group come from?
    rows = []
    for g in groups:
        if shim():
            r = [i for i, a in enumerate(atom_of_row) if a == g[2]]
        else:
            r = [i for i, c in enumerate(codes) if c == g[0] + '%03d' % g[1]]
        rows.append(r[0] if r else None)
    cl.append(('every group is the code of a listed layer', all(r is not None for r in rows)))
    if None in rows:
        return cl
    for g, r in zip(groups, rows):
        cl.append(('group text = abbreviation of the okta + coded base of its row', codes[r].startswith(g[0])))
    if prop == 'C01':
        cl.append(('groups in non-decreasing height order',
                   And([groups[j][1] <= groups[j + 1][1] for j in range(len(groups) - 1)] or [True])
                   and rows == sorted(rows)))
        if len(groups) >= 2:
            cl.append(('second group SCT or more', okta[rows[1]] >= 3))
        if len(groups) >= 3:
            cl.append(('third group BKN or more', okta[rows[2]] >= 5))
        cl.append(('no group for a zero-okta layer', And([okta[r] >= 1 for r in rows])))
        cl.append(('no group for a layer at or above the MSA', And([below[r] for r in rows])))
        for r in rows:
            E.cover('layer exactly at the MSA present', False if msa is None else Or([b == msa for b in base]))
    else:
        cl.append(('a message with groups only when something is reportable', anyR))
        r0 = rows[0]
        cl.append(('first group = lowest layer of >= 1 okta below the MSA',
                   And(inR[r0], And([Not(inR[i]) for i in range(r0)] or [True]))))
        ceil_ok = []
        for i in range(k):
            is_ceiling = And(inR[i], okta[i] >= 5, And([Not(And(inR[j], okta[j] >= 5)) for j in range(i)] or [True]))
            ceil_ok.append(Implies(is_ceiling, i in rows))
            E.cover('ceiling above two reported layers', And(is_ceiling, i >= 2))
        cl.append(('the ceiling (lowest layer >= 5 oktas below the MSA) is among the groups', And(ceil_ok)))
    return cl
