"""C06 - groups, and layers split from one group, respect the minimum separation."""
from harness.common import *
from harness import pipeline

SPEC = {
    'technique': 'symbolic execution of find_groups / _merge_close_groups / metarize(groups) on constructed post-slicing '
                 'states and of find_layers / ncomp_from_gmm / metarize(layers) on the thirty-hit construction; separation '
                 'of the reported bases decided per path by z3 (nonlinear real arithmetic)',
    'bounds': {'quick': 'groups: post-slicing states of <= 3 hits in <= 3 slices, any heights, MIN_SEP_VALS/LIMS with two symbolic '
                        'bins, percentile, MAX_HITS_OKTA0 and an exclusion list that may empty a group (two ceilometers); whole '
                        'chain on <= 2 hits; layers: 30-hit group on 3 heights, rows ascending/descending in time, look-back 20/100, '
                        'any labelling / scores / minimum separation, no re-merge',
               'thorough': 'every post-slicing shape of <= 3 hits with and without exclusion, two 4-hit shapes; mixed row order; look-back 50'},
    'outside': 'separation between layers of different groups (not in the statement); binary64 rounding; rows beyond the bound; '
               'tie-breaking of an unstable sort on equal time stamps (the pandas model sorts stably)',
    'budget_s': {'quick': 1200, 'thorough': 3600},
}


def h_group(E, shape, pvar):
    return pipeline.h_group(E, shape, pvar, 'C06')


def h_run(E, N, C, pvar, chk):
    return pipeline.h_run(E, N, C, pvar, chk, 'C06')


def h_layer(E, order, extra, lbv):
    return pipeline.h_layer(E, order, extra, lbv, 'C06')


HARNESSES = [
    H('H-sep-groups', h_group, quick=[('01', 4), ('01', 6), ('012', 4), ('012', 6), ('001', 6)],
      thorough=[(sh, p) for sh in ('01', '012', '001', '011') for p in (4, 6)] + [('0012', 4), ('0122', 4)],
      float_model='R', cover=['two groups reported', 'a merge happened'],
      assumptions=['state after slicing constructed directly; per-bundle clustering answers an arbitrary partition'],
      doc='real find_groups (merge loop) + metarize(groups): consecutive reported group bases at least MIN_SEP_VALS[bin of the upper one] apart'),
    H('H-sep-run', h_run, quick=[(2, 1, 4, 0), (2, 2, 5, 0)], thorough=[(2, 1, 4, 0), (2, 2, 5, 0), (2, 2, 4, 0), (3, 1, 4, 0)],
      float_model='R', cover=['two groups reported'],
      doc='whole chain on small accepted tables: reported group bases respect the separation'),
    H('H-sep-layers', h_layer, quick=[('asc', 0, 100), ('desc', 0, 20), ('asc', 0, 20)],
      thorough=[(o, 0, lb) for o in ('asc', 'desc', 'mixed') for lb in (20, 50, 100)], float_model='R',
      cover=['group split in 2', 'split without re-merge'], scripted=True,
      doc='thirty-hit group: when the split is the raw mixture result (no re-merge), the reported layer bases are at least min_sep apart'),
]
get_harness = make_get(HARNESSES)
