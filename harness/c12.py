"""C12 - all documented ways of setting parameters are equivalent; reset restores all (YAML route: packaged/concrete files only)."""
import os, tempfile
from harness.common import *
from harness import pipeline, prm
from harness.prm import freeze, frozen_equal, leaves, set_leaf, get_leaf

SPEC = {
    'technique': '2-run symbolic execution: per-call dictionary over a poisoned global vs global edited to the effective values '
                 '(real constructor and chain, stubbed libraries); unknown keys; reset_prms after symbolic nested in-place edits for '
                 'every subset choice of names; the YAML route exercised on concrete files through the real ruamel parser',
    'bounds': {'quick': 'tables of 1 hit x 10 per-call key profiles of depth 1-3 (unknown keys included) with symbolic values, 2 hits for 3 profiles; '
                        'reset_prms with every leaf edited and a symbolic choice of which names are reset (no name: None, [] or ())',
               'thorough': 'as quick with 2 hits for 7 of the 10 profiles'},
    'outside': 'the YAML route for arbitrary values (a value has to pass through YAML text and ruamel\'s parser: concrete I/O; exercised '
               'for the packaged file, for MSA: null over a numeric global and for a nested override only)',
    'budget_s': {'quick': 1200, 'thorough': 3600},
}


def h_routes(E, N, profile):
    from ampycloud import dynamic
    T = Table(E, N, 1, tmin=1, tmax=1)
    P = prm.percall_profile(E, profile)
    prm.valid_percall(E, P)
    base = dynamic.get_default_prms()
    base['MAX_HITS_OKTA0'] = 0
    # route (a): per-call P over a global whose overridden leaves hold unrelated (poisoned) values
    import copy
    Ga = copy.deepcopy(base)
    n = 0
    for path, v in leaves(Ga):
        try:
            get_leaf(P, path)
            n += 1
            set_leaf(Ga, path, E.real('poison%d' % n) if not isinstance(v, list) else [E.real('poison%da' % n), E.real('poison%db' % n)])
        except (KeyError, TypeError):
            pass
    E.cover('a poisoned global leaf is overridden per call', n > 0)
    with prm.GlobalPrms(Ga):
        ka, cha, sta = pipeline.run_pipeline(T.frame(), P, stub_checker=True)
        warn_a = list(pipeline.LAST_WARNINGS)
    # route (b): the same effective values written into the global, no per-call dictionary
    Gb = copy.deepcopy(base)
    for path, v in leaves(Gb):
        try:
            set_leaf(Gb, path, get_leaf(P, path))
        except (KeyError, TypeError):
            pass
    with prm.GlobalPrms(Gb):
        kb, chb, stb = pipeline.run_pipeline(T.frame(), None, stub_checker=True)
    cl = [('both routes end alike', ka == kb and ka in ('ok',))]
    if ka != 'ok' or kb != 'ok':
        E.note('outcomes', '%s@%s / %s@%s %s' % (ka, sta, kb, stb, str(cha)[:200]))
        return cl
    cl.append(('same effective parameters on the chunk', frozen_equal(freeze(cha.prms), freeze(chb.prms))))
    cl.append(('same tables, assignments and messages', pipeline.same_snapshot(pipeline.snapshot(cha), pipeline.snapshot(chb))))
    nunk = ('NOT_A_PRM' in P) + ('not_a_key' in P.get('LOWESS', {}))
    E.cover('unknown key', nunk > 0)
    warn = [m for m in warn_a if 'Key unknown' in m]
    cl.append(('each unknown key raises exactly one AmpycloudWarning and adds no key',
               len(warn) == nunk and [p for p, _ in leaves(cha.prms)] == [p for p, _ in leaves(base)]))
    return cl


def h_routes_group(E, shape, profile):
    """Same 2-run from a constructed post-slicing state (slice ids injected after the real constructor), so that bundles of
    overlapping slices - where the grouping parameters are read - exist at small size."""
    import copy
    from ampycloud import dynamic
    from ampycloud.data import CeiloChunk
    from ampycloud.utils import utils
    from models import stubs
    stubs.OPTIONS['single_exact'] = False
    N = len(shape)
    hs = [E.real('h%d' % i) for i in range(N)]
    ds = [E.real('dt%d' % i) for i in range(N)]
    for i in range(N):
        E.assume(And(hs[i] >= 0, hs[i] < 100000))
        if i:
            E.assume(ds[i - 1] < ds[i])
    sid = [int(c) for c in shape]
    P = prm.percall_profile(E, profile)
    prm.valid_percall(E, P)
    base = dynamic.get_default_prms()
    base['MAX_HITS_OKTA0'] = 0
    Ga = copy.deepcopy(base)
    n = 0
    for path, v in leaves(Ga):
        try:
            get_leaf(P, path)
            n += 1
            set_leaf(Ga, path, E.real('poison%d' % n) if not isinstance(v, list) else [E.real('poison%da' % n), E.real('poison%db' % n)])
        except (KeyError, TypeError):
            pass
    Gb = copy.deepcopy(base)
    for path, v in leaves(Gb):
        try:
            set_leaf(Gb, path, get_leaf(P, path))
        except (KeyError, TypeError):
            pass

    def go(G, percall):
        orig = utils.check_data_consistency
        utils.check_data_consistency = pipeline._light_checker
        try:
            with prm.GlobalPrms(G), WarningLog():
                def run():
                    ch = CeiloChunk(frame({'ceilo': ['a'] * N, 'dt': list(ds), 'height': list(hs), 'type': [1] * N}), prms=percall)
                    ch.data['slice_id'] = list(sid)
                    ch.metarize('slices')
                    ch.find_groups()
                    ch.find_layers()
                    return ch
                return outcome(run)
        finally:
            utils.check_data_consistency = orig
    ka, cha = go(Ga, P)
    kb, chb = go(Gb, None)
    cl = [('both routes end alike', ka == kb and ka == 'ok')]
    if ka != 'ok' or kb != 'ok':
        E.note('outcomes', '%s / %s %s' % (ka, kb, str(cha)[:200]))
        return cl
    iso = [bool(x) for x in col(cha.slices, 'isolated')]
    E.cover('a bundle of overlapping slices', not all(iso))
    cl.append(('same tables, assignments and messages', pipeline.same_snapshot(pipeline.snapshot(cha), pipeline.snapshot(chb))))
    return cl


TOP = ['MSA', 'MIN_SEP_VALS', 'SLICING_PRMS', 'LAYERING_PRMS', 'LOWESS']


def h_reset(E):
    """reset_prms(which) after nested in-place edits of every leaf: named keys (all, if none named) back to the packaged
    values, the others as edited; unknown name -> AmpycloudError."""
    import ampycloud
    from ampycloud import dynamic
    packaged = freeze(dynamic.get_default_prms())
    cl = []
    with prm.GlobalPrms() as G:
        for n, (path, v) in enumerate(leaves(G)):
            if isinstance(v, list):
                v.append(E.real('e%da' % n))          # in-place edit of a list-valued parameter
            else:
                set_leaf(G, path, E.real('e%d' % n))     # in-place edit of a (nested) leaf
        if E.choose(2, 'add_key'):
            G['LOWESS']['delta'] = E.real('added')          # a key added in place (e.g. an extra LOWESS argument)
            G['NEW_TOP_LEVEL'] = E.real('added2')
            E.cover('key added in place')
        if E.choose(2, 'del_key'):
            del G['SLICING_PRMS']['height_scale_kwargs']['min_range']
            E.cover('key removed in place')
        edited = freeze(G)
        sel = [t for t in TOP if E.choose(2, 'reset_' + t)]
        E.cover('partial reset', 0 < len(sel) < len(TOP))
        E.cover('full reset', not sel)
        # an empty selection is a selection (nothing named, nothing reset); only None means "everything"
        arg = list(sel) if sel else [None, [], ()][E.choose(3, 'empty_form')]
        E.cover('empty selection', arg is not None and len(arg) == 0)
        kind, _ = outcome(ampycloud.reset_prms, arg)
        cl.append(('reset_prms returns', kind == 'ok'))
        now = dynamic.AMPYCLOUD_PRMS
        want = dict(packaged[1]) if arg is None else {k: (dict(packaged[1])[k] if k in sel else dict(edited[1])[k]) for k in dict(edited[1])}
        got = dict(freeze(now)[1])
        cl.append(('named parameters restored to the packaged defaults, the others left as edited',
                   list(got) == list(want) and And([frozen_equal(got[k], want[k]) for k in want])))
        # a second reset after new nested edits still restores (defaults not aliased with the live dictionary)
        for n, (path, v) in enumerate(leaves(dynamic.AMPYCLOUD_PRMS)):
            if isinstance(v, list):
                v.append('again')
            else:
                set_leaf(dynamic.AMPYCLOUD_PRMS, path, ['again', n])
        ampycloud.reset_prms()
        cl.append(('a later full reset restores the packaged defaults again', frozen_equal(freeze(dynamic.AMPYCLOUD_PRMS), packaged)))
        cl.append(('fresh defaults are unaffected by earlier edits', frozen_equal(freeze(dynamic.get_default_prms()), packaged)))
        k3, _ = outcome(ampycloud.reset_prms, ['NOT_A_PRM'])
        cl.append(('unknown name refused', k3 == 'AmpycloudError'))
    return cl


def h_yaml(E):
    """YAML route on concrete files (real ruamel): packaged file restores the defaults; MSA: null over a numeric global;
    a nested override."""
    import ampycloud, shutil
    from ampycloud import dynamic
    E.cover('ran')
    src = os.path.join(os.path.dirname(dynamic.__file__), 'prms', 'ampycloud_default_prms.yml')
    packaged = freeze(dynamic.get_default_prms())
    cl = []
    d = tempfile.mkdtemp(prefix='vyaml')
    try:
        with prm.GlobalPrms() as G:
            G['MSA'] = 1500
            G['SLICING_PRMS']['dt_scale'] = 7
            ampycloud.set_prms(src)
            cl.append(('set_prms(packaged file) gives the packaged values, MSA: null included',
                       frozen_equal(freeze(dynamic.AMPYCLOUD_PRMS), packaged)))
        with prm.GlobalPrms() as G:
            f = os.path.join(d, 'p.yml')
            open(f, 'w').write('MSA: 2500\nSLICING_PRMS:\n    height_scale_kwargs:\n        min_range: 333\n')
            ampycloud.set_prms(f)
            g = dynamic.AMPYCLOUD_PRMS
            want = dynamic.get_default_prms()
            want['MSA'] = 2500
            want['SLICING_PRMS']['height_scale_kwargs']['min_range'] = 333
            cl.append(('set_prms(partial nested file) overrides exactly the named keys', frozen_equal(freeze(g), freeze(want))))
    finally:
        shutil.rmtree(d, ignore_errors=True)
    return cl


HARNESSES = [
    H('H-routes', h_routes, quick=[(1, k) for k in range(10)] + [(2, 0), (2, 2), (2, 3), (2, 9)], thorough=[(1, k) for k in range(10)] + [(2, k) for k in (0, 1, 2, 3, 4, 6, 9)], float_model='R', scripted=True,
      cover=['a poisoned global leaf is overridden per call', 'unknown key'],
      doc='2-run: per-call dictionary over a poisoned global vs edited global: same chunk parameters, tables, messages; unknown keys warn once and add nothing'),
    H('H-routes-group', h_routes_group, quick=[('001', 2), ('001', 3), ('001', 1)], thorough=[(sh, k) for sh in ('001', '011') for k in (1, 2, 3, 4, 5)],
      float_model='R', scripted=True, cover=['a bundle of overlapping slices'],
      assumptions=['post-slicing state constructed by injecting slice ids after the real constructor; per-bundle clustering answers an arbitrary partition'],
      doc='2-run from a post-slicing state with a bundle of overlapping slices: grouping and layering read the chunk parameters only'),
    H('H-reset', h_reset, quick=[()], thorough=[()], cover=['partial reset', 'full reset', 'empty selection', 'key added in place', 'key removed in place'], float_model='R',
      doc='real reset_prms after nested in-place edits of every leaf, for every choice of names'),
    H('H-yaml', h_yaml, quick=[()], thorough=[()], cover=['ran'],
      doc='real set_prms on concrete YAML files (real ruamel): concrete enumeration, no symbolic content'),
]
get_harness = make_get(HARNESSES)
