"""C07 - hits above MSA+buffer never influence the result; those below are kept intact."""
from harness.common import *

SPEC = {
    'technique': 'symbolic execution of AbstractChunk._cleanup_pdf (MSA cropping) through the pandas model on '
                 'symbolic hit tables; row-by-row oracle and two 2-run (metamorphic) comparisons decided per path by z3',
    'bounds': {'quick': 'H-crop: tables of <= 4 rows, 2 ceilometers, every height (NaN included), type -1..4, any MSA >= 0 '
                        'or None, buffer >= 0, MAX_HITS_OKTA0 >= 0; H-crop-init (whole constructor incl. the consistency check): <= 2 rows',
               'thorough': 'H-crop <= 5 rows; H-crop-init <= 3 rows'},
    'outside': 'that the later stages read nothing but the cleaned table, the flag and the parameters (C13 module-state '
               'monitor); binary64 rounding of MSA+buffer (real-number semantics of the comparison)',
    'budget_s': {'quick': 600, 'thorough': 2400},
}


def _run_crop(data, prms, stub_checker):
    from ampycloud.data import CeiloChunk, AbstractChunk
    from ampycloud.utils import utils
    ch = CeiloChunk.__new__(CeiloChunk)
    ch._prms = prms
    if stub_checker:
        orig = utils.check_data_consistency
        utils.check_data_consistency = lambda d, req_cols=None: d.reset_index(drop=True) if False else d
        try:
            kind, out = outcome(ch._cleanup_pdf, data)
        finally:
            utils.check_data_consistency = orig
    else:
        kind, out = outcome(ch._cleanup_pdf, data)
    return kind, out, ch


def h_crop(E, N, msa_none, full):
    T = Table(E, N, 2, distinct_dt=(full == 1))
    prms = default_prms()
    if msa_none:
        prms['MSA'] = None
        lim = None
    else:
        msa = E.real('msa')
        E.assume(msa >= 0)
        prms['MSA'] = msa
    buf = E.real('buffer')
    E.assume(buf >= 0)
    k0 = E.int('k0', 0, None)
    prms['MSA_HIT_BUFFER'] = buf
    prms['MAX_HITS_OKTA0'] = k0
    if not msa_none:
        lim = msa + buf
    # rows are identified by a hidden extra column when the checker (which would drop it) is stubbed,
    # and by their pairwise distinct time stamps otherwise
    labels = None
    if full == 2:
        # arbitrary caller index labels, repeats allowed (pd.concat of per-ceilometer frames)
        labels = [E.int('idx%d' % i) for i in range(N)]
        E.cover('repeated index labels', Or([labels[i] == labels[j] for i in range(N) for j in range(i)] or [False]))
        if not shim():
            labels = [int(x) for x in labels]
        full = 0
    data = T.frame(extra=None if full else {'rid': list(range(N))}, index=labels)
    kind, out, ch = _run_crop(data, prms, stub_checker=not full)
    cl = [('no exception', kind == 'ok')]
    if kind != 'ok':
        E.note('exception', repr(out))
        return cl
    above = [False if lim is None else And(Not(isnan(h)), h > lim) for h in T.height]
    odt, oh, ot, oc = col(out, 'dt'), col(out, 'height'), col(out, 'type'), col(out, 'ceilo')
    pos = match_rows(odt, T.dt) if full else [int(r) for r in col(out, 'rid')]
    cl.append(('every output row is an input row, in the input order',
               all(p is not None for p in pos) and pos == sorted(pos) and len(set(pos)) == len(pos)))
    if None in pos:
        return cl
    rows = []
    for i in range(N):
        if i in pos:
            j = pos.index(i)
            kept = And(same_float(fval(oh[j]), T.height[i]), fval(ot[j]) == T.type[i])
            conv = And(isnan(fval(oh[j])), fval(ot[j]) == 0)
            rows.append(And(oc[j] == T.ceilo[i], Or(And(Not(above[i]), kept), And(above[i], T.type[i] <= 1, conv))))
            E.cover('row above the limit turned into a non-detection', And(above[i], T.type[i] <= 1))
            E.cover('VV hit above the limit', And(above[i], T.type[i] == -1))
            E.cover('row exactly at the limit kept', False if lim is None else T.height[i] == lim)
            E.cover('row with NaN height kept', isnan(T.height[i]))
        else:
            rows.append(And(above[i], T.type[i] > 1))
            E.cover('row above the limit dropped')
    cl.append(('rows at/below the limit (and NaN rows) kept unchanged; above: type<=1 -> (NaN, 0), type>=2 dropped',
               And(rows)))
    nabove = count_true(above)
    flag = ch.clouds_above_msa_buffer
    cl.append(('flag <=> number of hits above the limit > MAX_HITS_OKTA0', Iff(flag, nabove > k0)))
    E.cover('flag raised', flag)
    E.cover('flag not raised with hits above', And(Not(flag), nabove > 0))
    cl.append(('the caller frame is untouched', And([same_value(a, b) for c in ('dt', 'height', 'type')
                                                     for a, b in zip(col(data, c), getattr(T, c))])))
    if lim is None:
        E.cover('no MSA')
        cl.append(('no MSA: nothing cropped, flag false', And(len(odt) == N, Not(flag))))
        return cl
    # 2-run A/B: other heights above the limit -> identical cleaned table and flag
    g = [E.real('g%d' % i) for i in range(N)]
    for x in g:
        E.assume(x > lim)
    hB = [ite(a, x, h) if is_sym(a) else (x if a else h) for a, x, h in zip(above, g, T.height)]
    cB = T.cols()
    cB['height'] = hB
    if not full:
        cB['rid'] = list(range(N))
    kB, outB, chB = _run_crop(frame(cB, index=labels), prms, stub_checker=not full)
    okB = kB == 'ok' and len(outB) == len(out)
    cl.append(('other heights above the limit: same cleaned table and flag',
               okB and And([same_value(fval(a), fval(b)) for c in ('ceilo', 'dt', 'height', 'type')
                            for a, b in zip(col(out, c), col(outB, c))] +
                           [Iff(flag, chB.clouds_above_msa_buffer)])))
    # 2-run A/C: hits above replaced by non-detections (type>=2 rows removed) -> identical cleaned table
    keep = [i for i in range(N) if i in pos]
    cC = {'ceilo': [T.ceilo[i] for i in keep], 'dt': [T.dt[i] for i in keep],
          'height': [ite(above[i], float('nan'), T.height[i]) if is_sym(above[i]) else
                     (float('nan') if above[i] else T.height[i]) for i in keep],
          'type': [ite(above[i], 0, T.type[i]) if is_sym(above[i]) else (0 if above[i] else T.type[i]) for i in keep]}
    if keep:
        kC, outC, chC = _run_crop(frame(cC), prms, stub_checker=True)
        okC = kC == 'ok' and len(outC) == len(out)
        cl.append(('hits above replaced by non-detections: same cleaned table',
                   okC and And([same_value(fval(a), fval(b)) for c in ('ceilo', 'dt', 'height', 'type')
                                for a, b in zip(col(out, c), col(outC, c))])))
    return cl


COVER = ['row above the limit turned into a non-detection', 'VV hit above the limit', 'row exactly at the limit kept',
         'row with NaN height kept', 'row above the limit dropped', 'flag raised', 'flag not raised with hits above']
HARNESSES = [
    H('H-crop', h_crop, quick=[(n, 0, 0) for n in (1, 2, 3, 4)] + [(2, 1, 0)],
      thorough=[(n, 0, 0) for n in (1, 2, 3, 4, 5)] + [(3, 1, 0)], float_model='R', cover=COVER + ['no MSA'],
      assumptions=['H-crop: utils.check_data_consistency replaced by the identity (its contract is C15; the whole '
                   'constructor is run unstubbed in H-crop-init)'],
      doc='real AbstractChunk._cleanup_pdf on an accepted symbolic table: row oracle, flag, 2-run with other heights '
          'above the limit, 2-run with non-detections'),
    H('H-crop-labels', h_crop, quick=[(2, 0, 2)], thorough=[(2, 0, 2), (3, 0, 2)], float_model='R',
      cover=['repeated index labels', 'row above the limit dropped'], assumptions=['utils.check_data_consistency replaced by the identity (C15)'],
      doc='same oracle on a frame carrying arbitrary (repeated) index labels: rows are cropped by what they are, not by their label'),
    H('H-crop-init', h_crop, quick=[(1, 0, 1), (2, 0, 1)], thorough=[(1, 0, 1), (2, 0, 1), (3, 0, 1), (2, 1, 1)],
      float_model='R', cover=['flag raised', 'row above the limit dropped'],
      assumptions=['time stamps pairwise distinct (rows are identified by them)'],
      doc='same oracle with the real utils.check_data_consistency in the loop (whole _cleanup_pdf)'),
]
get_harness = make_get(HARNESSES)
