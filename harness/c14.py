"""C14 - any order of stage calls raises AmpycloudError or gives the canonical result."""
import json, os
from harness.common import *
from harness import pipeline
from harness.pipeline import WHICH, snapshot, same_table
from harness.tables import same_code

OPS = ['find_slices', 'find_groups', 'find_layers', 'metarize:slices', 'metarize:groups', 'metarize:layers',
       'metar_msg:slices', 'metar_msg:groups', 'metar_msg:layers', 'metar_msg']
STATES = ['fresh', 'S', 'SG', 'SGL']

SPEC = {
    'technique': 'inductive step by symbolic execution: from each of the four canonical states (reached by the real stages '
                 'on a symbolic accepted table, library answers stubbed and memoised) each of the ten operations is applied '
                 'once; z3 decides per path that the call either raises AmpycloudError leaving everything term-for-term '
                 'unchanged or leaves the chunk in a canonical state of the same inputs',
    'bounds': {'quick': 'accepted tables of <= 2 hits of one ceilometer (two slices that may merge into one group) x 4 states x '
                        '10 operations; call sequences of any length by induction',
               'thorough': 'tables of <= 2 hits on <= 2 ceilometers'},
    'outside': 'tables beyond the row bound; the column "isolated" of the slices table after re-slicing (known finding D7)',
    'budget_s': {'quick': 1200, 'thorough': 3600},
}


def _apply(ch, op):
    if ':' in op:
        f, w = op.split(':')
        return outcome(getattr(ch, f), w)
    return outcome(getattr(ch, op))


def _advance(ch, upto):
    with WarningLog():
        if upto >= 1:
            ch.find_slices()
        if upto >= 2:
            ch.find_groups()
        if upto >= 3:
            ch.find_layers()


def _same(a, b, skip_isolated=False):
    cl = [same_table(a['data'], b['data'])]
    for w in WHICH:
        ta, tb = a[w], b[w]
        if skip_isolated and w == 'slices' and ta is not None and tb is not None:
            ta = {k: v for k, v in ta.items() if k != 'isolated'}
            tb = {k: v for k, v in tb.items() if k != 'isolated'}
        cl.append(same_table(ta, tb))
        ma, mb = a['msg_' + w], b['msg_' + w]
        cl.append(same_code(ma, mb) if isinstance(ma, str) and isinstance(mb, str) else ma is mb)
    cl.append(a['n'] == b['n'])
    return And(cl)


def _chunk(T, prms):
    from ampycloud.data import CeiloChunk
    from ampycloud.utils import utils
    orig = utils.check_data_consistency
    utils.check_data_consistency = pipeline._light_checker
    try:
        return CeiloChunk(T.frame(), prms=prms)
    finally:
        utils.check_data_consistency = orig


def h_step(E, N, C, state, opi):
    op = OPS[opi]
    T = Table(E, N, C, tmin=1, tmax=1)
    prms = {'MSA': None, 'MAX_HITS_OKTA0': 0}
    # canonical states of these inputs
    canon = []
    for s in range(4):
        c = _chunk(T, prms)
        _advance(c, s)
        canon.append(snapshot(c))
    ch = _chunk(T, prms)
    _advance(ch, state)
    before = snapshot(ch)
    with WarningLog():
        kind, res = _apply(ch, op)
    after = snapshot(ch)
    E.cover('refused', kind == 'AmpycloudError')
    E.cover('accepted', kind == 'ok')
    if N >= 2 and canon[3]['n'][0] == 2:
        E.cover('two slices merged into one group', canon[3]['n'][1] == 1)
    d7 = state >= 2 and op in ('find_slices', 'metarize:slices')
    cl = [('AmpycloudError or success, no other exception', kind in ('ok', 'AmpycloudError'))]
    if kind == 'AmpycloudError':
        cl.append(('a refused call leaves tables, per-hit assignments and messages intact', _same(before, after)))
    elif kind == 'ok':
        cl.append(('an accepted call leaves the chunk in a canonical state of the same inputs (no result lost)',
                   Or([_same(after, canon[s2], skip_isolated=d7) for s2 in range(state, 4)])))
        if op.startswith('metar_msg'):
            w = op.split(':')[1] if ':' in op else 'layers'
            cl.append(('the returned message is the canonical one', isinstance(res, str) and same_code(res, canon[3]['msg_' + w])))
            cl.append(('a query changes nothing', _same(before, after)))
    return cl


def h_step_layer(E, order, opi):
    """State SGL with a 30-hit group that went through the mixture model (constructed Inv_G state + real metarize + find_layers)."""
    from models import stubs
    stubs.OPTIONS['gmm'] = pipeline.gmm_stub
    op = OPS[opi]
    n = len(pipeline.FILL_H)
    hs = list(pipeline.FILL_H)
    ds = [-15.0 * (n - 1 - i) for i in range(n)]
    if order == 'desc':
        hs, ds = hs[::-1], ds[::-1]
    sep = E.real('min_sep')
    E.assume(sep > 0)

    def make():
        prms = default_prms()
        prms.update(MSA=None, MIN_SEP_VALS=[sep], MIN_SEP_LIMS=[])
        data = frame({'ceilo': ['a'] * n, 'dt': list(ds), 'height': list(hs), 'type': [1] * n, 'slice_id': [0] * n, 'group_id': [0] * n})
        c = new_chunk(data, prms)
        with WarningLog():
            c.metarize('slices')
            c.metarize('groups')
            c.find_layers()
        return c
    canon = snapshot(make())
    ch = make()
    before = snapshot(ch)
    with WarningLog():
        kind, res = _apply(ch, op)
    after = snapshot(ch)
    nc = int(col(ch.groups, 'ncomp')[0]) if ch.groups is not None and len(ch.groups) else 0
    E.cover('group examined and not split', nc == 1)
    E.cover('group split', nc > 1)
    E.cover('refused', kind == 'AmpycloudError')
    E.cover('accepted', kind == 'ok')
    d7 = op in ('find_slices', 'metarize:slices')
    cl = [('AmpycloudError or success, no other exception', kind in ('ok', 'AmpycloudError'))]
    if op in ('find_slices',):
        return cl[:0] + [('not applicable to a constructed state', True)]
    if kind == 'AmpycloudError':
        cl.append(('a refused call leaves tables, per-hit assignments and messages intact', _same(before, after)))
    elif kind == 'ok':
        cl.append(('an accepted call leaves the canonical layered state (idempotent; no result lost)', _same(after, canon, skip_isolated=d7)))
        if op.startswith('metar_msg'):
            w = op.split(':')[1] if ':' in op else 'layers'
            cl.append(('the returned message is the canonical one', isinstance(res, str) and same_code(res, canon['msg_' + w])))
    return cl


def _sizes(ncs):
    return [(n, c, s, o) for (n, c) in ncs for s in range(4) for o in range(len(OPS))]


HARNESSES = [
    H('H-step', h_step, quick=_sizes([(2, 1)]), thorough=_sizes([(1, 1), (2, 1), (2, 2)]), float_model='R',
      cover=['refused', 'accepted', 'two slices merged into one group'], scripted=True,
      assumptions=['utils.check_data_consistency replaced by a stand-in on the accepted table (C15); hit type fixed to 1'],
      doc='one operation from each canonical state: AmpycloudError + unchanged, or canonical state of the same inputs; by '
          'induction every call sequence stays inside the canonical states'),
    H('H-step-layer', h_step_layer, quick=[('asc', o) for o in (1, 2, 4, 5)], thorough=[(r, o) for r in ('asc', 'desc') for o in range(1, len(OPS))],
      float_model='R', cover=['group examined and not split', 'group split', 'refused', 'accepted'], scripted=True,
      assumptions=['layered state with a 30-hit group constructed directly (Inv_G + real metarize + real find_layers); mixture stub as in C05'],
      doc='operations applied to a layered state whose group went through the mixture model (ncomp >= 1): refused + unchanged, or idempotent'),
]
get_harness = make_get(HARNESSES)
