"""Shared harness vocabulary (DESIGN.md section 3). Harness code is world-agnostic: it runs in the
shim world on symbolic values and, for replays, in the real world on concrete values."""
import sys, copy, warnings
from symex import core, world
from symex.core import And, Or, Not, Implies, Iff, count_true, same_float, same_value, isnan, is_sym, ite, sbool


class H:
    def __init__(self, name, fn, quick, thorough, cover=(), doc='', float_model='-', assumptions=(),
                 slice_s=8, query_timeout_ms=120000, logic=None, scripted=False):
        self.logic = logic
        self.scripted = scripted
        self.name, self.fn, self.quick, self.thorough = name, fn, quick, thorough
        self.cover = list(cover)
        self.doc = doc
        self.float_model = float_model
        self.assumptions = list(assumptions)
        self.slice_s = slice_s
        self.query_timeout_ms = query_timeout_ms

    def sizes(self, tier):
        return self.thorough if tier == 'thorough' else self.quick


def make_get(hs):
    d = {h.name: h for h in hs}
    return lambda n: d[n]


def shim():
    return world.WORLD == 'shim'


def pd():
    return sys.modules['pandas']


def np():
    return sys.modules['numpy']


def ampy():
    return sys.modules['ampycloud']


def outcome(fn, *a, **k):
    """Run code under test; returns ('ok', result) or (exception class name, exception)."""
    try:
        return 'ok', fn(*a, **k)
    except core.EngineSignal:
        raise
    except Exception as e:  # noqa: BLE001 - the outcome *is* the subject
        return type(e).__name__, e


def string_dtype():
    return pd().StringDtype()


def frame(cols, index=None, dtypes=True):
    """Per-hit table in the current world. cols: dict name -> list."""
    P = pd()
    df = P.DataFrame({k: list(v) for k, v in cols.items()}, index=index)
    if shim():
        if dtypes:
            df.dtypes.update({'ceilo': P.StringDtype(), 'dt': float, 'height': float, 'type': int})
            for c in cols:
                if c.endswith('_id'):
                    df.dtypes[c] = int
    else:
        if dtypes:
            if 'ceilo' in cols:
                df['ceilo'] = df['ceilo'].astype(P.StringDtype())
            for c, t in (('dt', float), ('height', float), ('type', int)):
                if c in cols:
                    df[c] = df[c].astype(t)
    return df


def col(df, name):
    """Column values as a Python list (both worlds)."""
    return list(df[name].to_list())


def default_prms():
    from ampycloud import dynamic
    return copy.deepcopy(dynamic.get_default_prms())


def new_chunk(data, prms, flag=False):
    """CeiloChunk constructed directly (DESIGN 2.6): state as after __init__ on clean data."""
    from ampycloud.data import CeiloChunk
    ch = CeiloChunk.__new__(CeiloChunk)
    ch._prms = prms
    ch._data = data
    ch._slices = ch._groups = ch._layers = None
    ch._clouds_above_msa_buffer = flag
    ch._geoloc = None
    ch._ref_dt = None
    return ch


def fval(x):
    """float for concrete numpy scalars; symbolic values unchanged."""
    if is_sym(x):
        return x
    if x is None:
        return None
    try:
        return x.item() if hasattr(x, 'item') else x
    except Exception:
        return x


class WarningLog:
    """Context manager recording warnings (Python's real machinery in both worlds)."""
    def __enter__(self):
        self._cm = warnings.catch_warnings(record=True)
        self.log = self._cm.__enter__()
        warnings.simplefilter('always')
        return self

    def __exit__(self, *a):
        return self._cm.__exit__(*a)

    def categories(self):
        return [w.category.__name__ for w in self.log]

    def messages(self):
        return [str(w.message) for w in self.log]


# ---------------------------------------------------------------------------------------------
# Table(N, C): the per-hit table of DESIGN.md section 3
# ---------------------------------------------------------------------------------------------
NAMES = ['a', 'b', 'c', 'd']


class Table:
    """N rows; ceilometer of each row chosen by a fork among C names; dt, height (NaN allowed),
    type symbolic."""

    def __init__(self, E, N, C=2, tag='', nan=True, tmin=-1, tmax=4, hmin=0, hmax=100000, names=None,
                 distinct_dt=False, accepted=True, dt_range=None):
        self.N, self.C = N, C
        self.names = list(names or NAMES[:C])
        self.ci = [E.choose(C, '%sceilo%d' % (tag, i)) for i in range(N)]
        self.ceilo = [self.names[k] for k in self.ci]
        self.dt = [E.real('%sdt%d' % (tag, i)) for i in range(N)]
        self.height = [E.real('%sh%d' % (tag, i), nan=nan) for i in range(N)]
        self.type = [E.int('%st%d' % (tag, i), tmin, tmax) for i in range(N)]
        for h in self.height:
            if hmin is not None:
                E.assume(Or(isnan(h), h >= hmin))
            if hmax is not None:
                E.assume(Or(isnan(h), h < hmax))
        if dt_range:
            for d in self.dt:
                E.assume(And(d >= dt_range[0], d <= dt_range[1]))
        if distinct_dt:
            for i in range(N):
                for j in range(i):
                    E.assume(Not(self.dt[i] == self.dt[j]))
        if accepted:
            E.assume(self.accepted(), 'input table accepted by the consistency check (no duplicated row, no 0/non-0 '
                                      'and no VV/non-VV types within one (ceilometer, time))')

    def same_meas(self, i, j):
        return And(self.ci[i] == self.ci[j], self.dt[i] == self.dt[j])

    def rejected(self):
        """The documented refusal conditions of the consistency check, as a formula over the rows."""
        bad = []
        for i in range(self.N):
            for j in range(i):
                bad.append(And(self.same_meas(i, j), same_float(self.height[i], self.height[j]),
                               self.type[i] == self.type[j]))
                for t in (0, -1):
                    bad.append(And(self.same_meas(i, j), Or(And(self.type[i] == t, Not(self.type[j] == t)),
                                                          And(self.type[j] == t, Not(self.type[i] == t)))))
        return Or(bad) if bad else False

    def accepted(self):
        return Not(self.rejected())

    def cols(self):
        return {'ceilo': list(self.ceilo), 'dt': list(self.dt), 'height': list(self.height), 'type': list(self.type)}

    def frame(self, index=None, extra=None, order=None):
        c = self.cols()
        if extra:
            c.update(extra)
        if order:
            c = {k: c[k] for k in order}
        return frame(c, index=index)


def match_rows(out_vals, in_vals):
    """For each output value, the position of the input value it is (identity of the term in the shim
    world, equality in the real world); None if it is none of them."""
    res = []
    for o in out_vals:
        hit = None
        for i, v in enumerate(in_vals):
            if (o is v) or (not is_sym(o) and not is_sym(v) and o == v):
                hit = i
                break
        res.append(hit)
    return res


def to_int(x):
    """int(x) (truncation) for concrete and symbolic numbers; concretises by forking."""
    if is_sym(x):
        from models import npmodel
        v = npmodel.f_cast(x, int)
        return core.concretize_int(v) if is_sym(v) else v
    return int(x)
