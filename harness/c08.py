"""C08 - valid input never crashes the chain; failures are AmpycloudError only."""
from harness.common import *
from harness import pipeline

SPEC = {
    'technique': 'symbolic execution of the whole chain (CeiloChunk.__init__, find_slices, find_groups, find_layers, '
                 'metar_msg) on symbolic accepted hit tables with non-deterministic stubs for scikit-learn/statsmodels '
                 'that raise like the library outside their preconditions; exception outcome decided per path',
    'bounds': {'quick': 'accepted tables of <= 2 hits, <= 2 ceilometers (every height incl. NaN, type -1..4, any times) x '
                        '5 parameter families with symbolic leaves; 3-hit tables with default parameters; '
                        'H-group: constructed post-slicing states with <= 4 hits in <= 3 slices',
               'thorough': 'tables of <= 2 hits on 2 ceilometers for all parameter families, 3 hits with default parameters, real checker at <= 2 hits; every bundle shape of <= 4 hits, shapes of <= 3 hits also with symbolic slicing/grouping scales'},
    'outside': 'failures inside scikit-learn / statsmodels / numpy / pandas for arguments within their documented '
               'preconditions (convergence, LinAlgError, LOWESS NaN), termination of their iterations; tables larger than the bound',
    'budget_s': {'quick': 1200, 'thorough': 3600},
}


def h_run(E, N, C, pvar, chk):
    return pipeline.h_run(E, N, C, pvar, chk, 'C08')


def h_group(E, shape, pvar):
    return pipeline.h_group(E, shape, pvar, 'C08')


def h_refusals(E, N):
    """Data / call-order / parameter-shape problems that ampycloud refuses: AmpycloudError and no other exception type, also
    for the calls that follow a refused one."""
    from ampycloud.data import CeiloChunk
    T = Table(E, N, 1, tmin=1, tmax=1)
    E.cover('ran')

    def fresh(prms=None):
        from ampycloud.utils import utils
        orig = utils.check_data_consistency
        utils.check_data_consistency = pipeline._light_checker
        try:
            return CeiloChunk(T.frame(), prms=dict({'MSA': None, 'MAX_HITS_OKTA0': 0}, **(prms or {})))
        finally:
            utils.check_data_consistency = orig
    cl = []

    def refused(name, fn, must=True):
        # must=False: the call may also succeed (e.g. no group exists, so the separation table is never consulted);
        # what the property rules out is any exception type other than AmpycloudError
        with WarningLog():
            k, r = outcome(fn)
        if k == 'AmpycloudError':
            E.cover('a parameter-shape problem refused')
        cl.append(('%s: %s (got %s)' % (name, 'AmpycloudError' if must else 'AmpycloudError or success', k),
                   k == 'AmpycloudError' or (not must and k == 'ok')))
    c = fresh()
    refused('find_groups before find_slices', c.find_groups)
    refused('find_layers before find_groups', c.find_layers)
    for w in ('slices', 'groups', 'layers'):
        refused('metarize(%s) before its stage' % w, lambda w=w: c.metarize(w))
        refused('metar_msg(%s) before its stage' % w, lambda w=w: c.metar_msg(w))
    refused('metarize(unknown)', lambda: c.metarize('clouds'))
    c = fresh()
    c.find_slices()
    refused('find_layers right after find_slices', c.find_layers)
    # MIN_SEP_VALS / MIN_SEP_LIMS of incompatible lengths: refused in find_groups, and nothing else but refusals afterwards
    c = fresh({'MIN_SEP_VALS': [250, 1000], 'MIN_SEP_LIMS': []})
    c.find_slices()
    refused('find_groups with incompatible MIN_SEP lengths', c.find_groups, must=False)
    if N >= 1 and c.n_slices and c.n_slices > 0:
        refused('find_layers after the (possibly refused) find_groups', c.find_layers, must=False)
        refused('metar_msg(layers) after the (possibly refused) find_groups', lambda: c.metar_msg('layers'), must=False)
    c = fresh({'SLICING_PRMS': {'height_scale_mode': 'no-such-mode', 'height_scale_kwargs': {}}})
    refused('find_slices with an unknown scaling mode', c.find_slices, must=False)
    return cl


HARNESSES = [
    H('H-run', h_run, quick=[(1, 1, 0, 1), (1, 1, 1, 1), (1, 1, 2, 1), (2, 1, 0, 1), (2, 2, 0, 0), (2, 1, 1, 0), (2, 1, 2, 0), (2, 1, 3, 0), (2, 1, 4, 0), (2, 2, 5, 0)],
      thorough=[(n, c, p, 0) for n in (1, 2) for c in (1, 2) for p in range(6) if c <= n] + [(3, 1, 0, 0)] +
               [(1, 1, p, 1) for p in range(6)] + [(2, 2, 0, 1), (2, 1, 1, 1), (2, 1, 2, 1)],
      float_model='R',
      cover=['one valid hit', 'only non-detections', 'type-1 hit with NaN height (warning-only anomaly)',
             'type-0 hit with a height (warning-only anomaly)', 'two slices', 'two slices merged into one group'],
      assumptions=['size vectors with last entry 0: utils.check_data_consistency replaced by a stand-in that returns a '
                   'copy with the four required columns (its contract is decided by C15); last entry 1: the real checker runs'],
      doc='real run() + metar_msg() for every accepted table of the size: no exception of any kind'),
    H('H-group', h_group, quick=[('0', 0), ('01', 0), ('00', 0), ('012', 0), ('001', 0), ('0012', 0), ('0122', 0), ('g012', 0)],
      thorough=[(sh, 0) for sh in ('0', '01', '00', '012', '001', '011', '0012', '0122', '0112', '0123', 'g012', 'g0012')] + [(sh, 3) for sh in ('01', '012', '001')],
      float_model='R', cover=['a bundle of overlapping slices', 'an isolated slice', 'a bundle left with a single one-hit slice'],
      assumptions=['H-group: state after slicing constructed directly (one ceilometer, type 1, times increasing with the row '
                   'index, every valid partition shape listed in the size vector); per-bundle clustering answers an arbitrary partition'],
      doc='real metarize(slices) + find_groups() from a constructed post-slicing state: no exception of any kind'),
    H('H-refusals', h_refusals, quick=[(1,), (2,)], thorough=[(1,), (2,)], float_model='R', cover=['ran', 'a parameter-shape problem refused'], scripted=True,
      doc='refused calls (wrong call order, unknown names, incompatible MIN_SEP lengths, unknown scaling mode) raise AmpycloudError and nothing else, including the calls made after a refused one'),
]
get_harness = make_get(HARNESSES)
