"""C18 - WMO conversions: okta binning, okta abbreviations and height flooring."""
import z3
from harness.common import *
from symex.core import SymFP, SymFPInt, SymInt, SymBool, decode_fragments

SPEC = {
    'technique': 'symbolic execution of wmo.perc2okta / okta2code / height2code through the numpy model; '
                 'exact IEEE-754 binary64 terms (QF_FP) for percentages and heights; per-path unsat',
    'bounds': {'quick': 'perc2okta: all integers 0<=n<=m<=8 in exact binary64 and all reals-semantics n<=m (unbounded); '
                        'any binary64 argument for the range check; okta2code: all ints in -16..25 plus 9 non-int kinds; '
                        'height2code: every binary64 in [0,1e5) and NaN',
               'thorough': 'as quick with m<=64 in exact binary64, and two-element array arguments'},
    'outside': 'm beyond the bound in the exact binary64 claim (the real-number claim has no bound on m); heights >= 1e5 or < 0',
    'no_validation': True,
    'budget_s': {'quick': 600, 'thorough': 3000},
}


def _digits(s):
    """(is exactly three digits, value) of a code chunk, in both worlds."""
    if shim():
        parts = decode_fragments(s)
        if len(parts) != 1 or isinstance(parts[0], str):
            if len(parts) == 1 and len(parts[0]) == 3 and parts[0].isdigit():
                return True, int(parts[0])
            return False, None
        val, spec = parts[0]
        if spec != '03':
            return False, val
        return And(val >= 0, val <= 999), val
    return (len(s) == 3 and s.isdigit()), (int(s) if s.isdigit() else None)


def k_height(E, two):
    from ampycloud import wmo
    clauses = []
    vs = [E.fp('v%d' % i) for i in range(2 if two else 1)]
    xs = []
    for v in vs:
        E.assume(And(v >= 0, v < 100000))
        out = wmo.height2code(v)
        ok, x = _digits(out)
        clauses.append(('three digits', ok))
        if x is None:
            return clauses
        xs.append(x)
        low = v <= 10000
        E.cover('below 10000 ft', low)
        E.cover('above 10000 ft', Not(low))
        E.cover('exactly on a 100 ft boundary', And(low, x * 100 == v, v > 0))
        clauses.append(('never coded upward', x * 100 <= v))
        clauses.append(('is the floor', Or(And(low, v < x * 100 + 100),
                                           And(Not(low), v < x * 100 + 1000))))
    if two:
        clauses.append(('non-decreasing', Implies(vs[0] <= vs[1], xs[0] <= xs[1])))
    return clauses


def k_height_nan(E):
    from ampycloud import wmo
    E.cover('nan')
    return [('NaN gives the empty string', wmo.height2code(float('nan')) == '')]


TABLE = {0: 'NCD', 1: 'FEW', 2: 'FEW', 3: 'SCT', 4: 'SCT', 5: 'BKN', 6: 'BKN', 7: 'BKN', 8: 'OVC', 9: None}


def k_okta(E):
    from ampycloud import wmo
    from ampycloud.errors import AmpycloudError
    o = E.int('o', -16, 25)
    kind, res = outcome(wmo.okta2code, o)
    clauses = []
    cl = True
    for k, v in TABLE.items():
        cl = And(cl, Implies(o == k, kind == 'ok' and res == v))
        E.cover('okta %d' % k, o == k)
    cl = And(cl, Implies(Or(o < 0, o > 9), kind == 'AmpycloudError'))
    E.cover('refused', Or(o < 0, o > 9))
    clauses.append(('table', cl))
    return clauses


def k_okta_types(E):
    from ampycloud import wmo
    bad = [1.0, 2.5, '3', None, [1], (1,), float('nan'), 1 + 0j, {1: 2}]
    E.cover('non-int kinds')
    return [('non-integers refused (%r)' % (b,), outcome(wmo.okta2code, b)[0] == 'AmpycloudError') for b in bad]


def _okta_of(res):
    return res[0]


def _perc_clauses(E, n, m, kind, res, tag=''):
    clauses = [('returns' + tag, kind == 'ok')]
    if kind != 'ok':
        return clauses, None
    clauses.append(('one okta per input' + tag, len(res) == 1))
    o = res[0]
    clauses.append(('0 only for n=0' + tag, Iff(o == 0, n == 0)))
    clauses.append(('8 only for n=m' + tag, Iff(o == 8, n == m)))
    mid = And(n > 0, n < m)
    # nearest okta, clipped to 1..7: |2*o*m - 16*n| <= m unless clipped (exact integer arithmetic)
    near = And(2 * o * m - 16 * n <= m, 16 * n - 2 * o * m <= m)
    clauses.append(('in between: nearest okta clipped to 1..7' + tag,
                    Implies(mid, And(o >= 1, o <= 7, Or(near, And(o == 1, 8 * n < m), And(o == 7, 8 * n > 7 * m))))))
    return clauses, o


def k_perc_fp(E, lo, hi, two):
    """Exact binary64: val = n/m*100 as the code computes it; m concrete per exploration (the size
    vector enumerates lo..hi), n any integral binary64 in [0, m]."""
    from ampycloud import wmo
    clauses = []
    for mc in range(lo, hi + 1):
        m = float(mc)
        ns = [E.fp('n%d_m%d' % (i, mc)) for i in range(2 if two else 1)]
        os_ = []
        for i, n in enumerate(ns):
            E.assume(And(n >= 0, n <= m, SymBool(z3.fpRoundToIntegral(z3.RNE(), n.e) == n.e)))
            val = n / m * 100
            kind, res = outcome(wmo.perc2okta, val)
            c, o = _perc_clauses(E, n, m, kind, res, ' [m=%d,%d]' % (mc, i))
            clauses += c
            if o is None:
                return clauses
            os_.append(o)
            E.cover('okta 0', o == 0)
            E.cover('okta 8', o == 8)
            E.cover('okta in 2..6', And(o >= 2, o <= 6))
        if two:
            clauses.append(('non-decreasing in n [m=%d]' % mc, Implies(ns[0] <= ns[1], os_[0] <= os_[1])))
    return clauses


def k_perc_real(E, two):
    """Real-number semantics, no bound on m."""
    from ampycloud import wmo
    m = E.int('m', 1, None)
    ns = [E.int('n%d' % i, 0, None) for i in range(2 if two else 1)]
    clauses, os_ = [], []
    for i, n in enumerate(ns):
        E.assume(n <= m)
        val = n / m * 100
        kind, res = outcome(wmo.perc2okta, val)
        c, o = _perc_clauses(E, n, m, kind, res, ' [%d]' % i if two else '')
        clauses += c
        if o is None:
            return clauses
        os_.append(o)
        E.cover('okta 0', o == 0)
        E.cover('okta 8', o == 8)
        E.cover('okta in 2..6', And(o >= 2, o <= 6))
    if two:
        clauses.append(('non-decreasing in n', Implies(ns[0] <= ns[1], os_[0] <= os_[1])))
    return clauses


def k_perc_range(E, kindsel):
    """Any binary64 (incl. NaN, inf): refused exactly outside [0,100]; scalar int and array arguments."""
    from ampycloud import wmo
    if kindsel == 0:
        v = E.fp('v')
        kind, res = outcome(wmo.perc2okta, v)
        inside = And(v >= 0, v <= 100)
        E.cover('inside', inside)
        E.cover('outside', Not(inside))
        E.cover('nan', isnan(v))
        return [('refused exactly outside [0,100]', And(Implies(inside, kind == 'ok'),
                                                        Implies(Not(inside), kind == 'AmpycloudError')))]
    if kindsel == 1:
        v = E.int('v', -3, 103)
        kind, res = outcome(wmo.perc2okta, v)
        inside = And(v >= 0, v <= 100)
        E.cover('inside', inside)
        E.cover('outside', Not(inside))
        return [('int argument: refused exactly outside [0,100]',
                 And(Implies(inside, kind == 'ok'), Implies(Not(inside), kind == 'AmpycloudError'))),
                ('int 0 -> 0, 100 -> 8', And(Implies(v == 0, kind == 'ok' and res[0] == 0),
                                             Implies(v == 100, kind == 'ok' and res[0] == 8)))]
    # array of two percentages: element-wise, same answers as the scalar calls; the caller's array is left alone
    a, b = E.fp('a'), E.fp('b')
    E.assume(And(a >= 0, a <= 100, b >= 0, b <= 100))
    N = np()
    arg = N.array([a, b])
    kind, res = outcome(wmo.perc2okta, arg)
    untouched = And(same_float(fval(arg[0]), a), same_float(fval(arg[1]), b))
    ka, ra = outcome(wmo.perc2okta, a)
    kb, rb = outcome(wmo.perc2okta, b)
    E.cover('inside')
    ok = kind == 'ok' and ka == 'ok' and kb == 'ok'
    return [('array argument accepted', ok), ('the array argument is not modified', untouched),
            ('array result = scalar results', ok and And(len(res) == 2, res[0] == ra[0], res[1] == rb[0]))]


def k_perc_array(E):
    """Real-number semantics: a float array argument gives the scalar answers element-wise and is not modified."""
    from ampycloud import wmo
    N = np()
    a, b = E.real('a'), E.real('b')
    E.assume(And(a >= 0, a <= 100, b >= 0, b <= 100))
    arg = N.array([a, b])
    kind, res = outcome(wmo.perc2okta, arg)
    untouched = And(same_float(fval(arg[0]), a), same_float(fval(arg[1]), b))
    ka, ra = outcome(wmo.perc2okta, a)
    kb, rb = outcome(wmo.perc2okta, b)
    E.cover('inside')
    ok = kind == 'ok' and ka == 'ok' and kb == 'ok'
    k2, res2 = outcome(wmo.perc2okta, arg)
    return [('array argument accepted', ok), ('the array argument is not modified', untouched),
            ('array result = scalar results', ok and And(len(res) == 2, res[0] == ra[0], res[1] == rb[0])),
            ('a second call on the same array gives the same oktas', ok and k2 == 'ok' and And(res2[0] == res[0], res2[1] == res[1]))]


def _mranges(M, parts):
    # split 1..M into ranges of roughly equal cost (cost grows with m)
    edges = sorted(set([1] + [max(1, int(M * (i / parts) ** 0.5)) for i in range(1, parts)] + [M + 1]))
    return [(edges[i], edges[i + 1] - 1) for i in range(len(edges) - 1)]


HARNESSES = [
    H('K-height', k_height, quick=[(0,), (1,)], thorough=[(0,), (1,)], float_model='F',
      cover=['below 10000 ft', 'above 10000 ft', 'exactly on a 100 ft boundary'], logic='QF_FP',
      doc='real wmo.height2code on every binary64 in [0,1e5): three digits, floor, never upward, monotone (2-run)'),
    H('K-height-nan', k_height_nan, quick=[()], thorough=[()], cover=['nan'], doc='NaN -> empty string'),
    H('K-okta', k_okta, quick=[()], thorough=[()],
      cover=['okta %d' % k for k in range(10)] + ['refused'],
      doc='real wmo.okta2code on every int in -16..25 against the table of the statement'),
    H('K-okta-types', k_okta_types, quick=[()], thorough=[()], cover=['non-int kinds'],
      doc='non-integer argument kinds are refused (concrete enumeration: no symbolic content)'),
    H('K-perc-real', k_perc_real, quick=[(0,), (1,)], thorough=[(0,), (1,)], float_model='R',
      cover=['okta 0', 'okta 8', 'okta in 2..6'],
      doc='real wmo.perc2okta on n/m*100 for all integers 0<=n<=m (no bound), real-number semantics'),
    H('K-perc-fp', k_perc_fp, quick=[(m, m, t) for m in range(1, 9) for t in (0, 1)],
      thorough=[(m, m, t) for m in range(1, 65) for t in (0, 1)], float_model='F',
      cover=['okta 0', 'okta 8', 'okta in 2..6'], slice_s=60, query_timeout_ms=900000, logic='QF_FP',
      doc='real wmo.perc2okta on n/m*100 in exact binary64 for integral n<=m in the given range of m'),
    H('K-perc-range', k_perc_range, quick=[(0,)], thorough=[(0,), (2,)], float_model='F', logic='QF_FP',
      cover=['inside', 'outside', 'nan'], query_timeout_ms=600000,
      doc='range check on any binary64 argument (NaN, inf included); array argument agrees with scalar calls'),
    H('K-perc-array', k_perc_array, quick=[()], thorough=[()], float_model='R', cover=['inside'],
      doc='real wmo.perc2okta on a two-element float array (reals): element-wise, argument untouched, repeatable'),
    H('K-perc-range-int', k_perc_range, quick=[(1,)], thorough=[(1,)], float_model='R',
      cover=['inside', 'outside'], doc='range check and end values for int arguments'),
]
get_harness = make_get(HARNESSES)
