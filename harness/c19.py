"""C19 - scalings are order-preserving, invertible and blind to non-detections."""
from harness.common import *

SPEC = {
    'technique': 'symbolic execution of scaler.apply_scaling / convert_kwargs / shift_and_scale / minmax_scale / '
                 'minrange2minmax / step_scale through the numpy model, NaN-extended real arithmetic (NRA); '
                 'per-path unsat of order preservation, do/undo identity, range, continuity, NaN transparency',
    'bounds': {'quick': 'arrays of length <= 4 with every NaN pattern (step scaling: <= 3), any real values; scale > 0, any shift; '
                        'min_range >= 0 with resulting range > 0; 0..3 sorted steps with positive scales',
               'thorough': 'arrays of length <= 4 (step scaling: <= 3), 0..3 steps (at 4 symbolic steps z3 answers unknown on the nonlinear continuity clause)'},
    'outside': 'binary64 rounding of the do/undo round trip (the inverse property is exact only over the reals); '
               'arrays longer than the bound',
    'no_validation': False,
    'budget_s': {'quick': 600, 'thorough': 2400},
}


def _inputs(E, L, nanmask, tag='x'):
    xs = []
    for i in range(L):
        if nanmask >> i & 1:
            xs.append(float('nan'))
        else:
            xs.append(E.real('%s%d' % (tag, i)))
    return xs


def _order(xs, ys):
    cl = []
    for i in range(len(xs)):
        for j in range(len(xs)):
            if i != j and not _isnanc(xs[i]) and not _isnanc(xs[j]):
                cl.append(Implies(xs[i] <= xs[j], ys[i] <= ys[j]))
    return And(cl) if cl else True


def _isnanc(x):
    return isinstance(x, float) and x != x


def _nan_kept(xs, ys):
    return And([Iff(_isnanc(x), isnan(y)) if not _isnanc(x) else isnan(y) for x, y in zip(xs, ys)] or [True])


def _same_list(a, b):
    return len(a) == len(b) and And([same_float(fval(p), fval(q)) for p, q in zip(a, b)] or [True])


def _drop_nan(xs):
    return [x for x in xs if not _isnanc(x)]


def k_shift(E, L, nanmask):
    from ampycloud import scaler
    N = np()
    xs = _inputs(E, L, nanmask)
    s = E.real('scale')
    E.assume(s > 0)
    valid = _drop_nan(xs)
    cl = []
    kind, y = outcome(scaler.apply_scaling, N.array(xs), 'shift-and-scale', scale=s)
    cl.append(('no exception', kind == 'ok'))
    if kind != 'ok':
        return cl
    ys = [fval(v) for v in y]
    E.cover('scaled')
    cl.append(('order preserving', _order(xs, ys)))
    cl.append(('NaN stays NaN, nothing else becomes NaN', _nan_kept(xs, ys)))
    if valid:
        cl.append(('default shift: the largest value maps to 0, all others below',
                   And([v <= 0 for x, v in zip(xs, ys) if not _isnanc(x)] +
                       [Or([v == 0 for x, v in zip(xs, ys) if not _isnanc(x)])])))
        # derived kwargs, do / undo
        kw = scaler.convert_kwargs(N.array(xs), 'shift-and-scale', scale=s, mode='do')
        y2 = scaler.apply_scaling(N.array(xs), 'shift-and-scale', **kw)
        kwu = dict(kw)
        kwu['mode'] = 'undo'
        kind, back = outcome(scaler.apply_scaling, y2, 'shift-and-scale', **kwu)
        cl.append(('undo with derived kwargs restores the input',
                   kind == 'ok' and _same_list([fval(v) for v in back], xs)))
        # NaN entries do not influence the others (2-run on the array without them)
        yc = scaler.apply_scaling(N.array(valid), 'shift-and-scale', scale=s)
        cl.append(('NaN entries do not affect the other values',
                   _same_list([fval(v) for v in yc], [v for x, v in zip(xs, ys) if not _isnanc(x)])))
    # explicit shift (any real, including exactly 0): (x - shift)/scale
    sh = E.real('shift')
    E.cover('explicit shift of exactly 0', sh == 0)
    kind, y3 = outcome(scaler.apply_scaling, N.array(xs), 'shift-and-scale', shift=sh, scale=s)
    cl.append(('explicit shift honoured', kind == 'ok' and And(
        [fval(v) * s == x - sh for x, v in zip(xs, y3) if not _isnanc(x)] or [True])))
    if kind == 'ok':
        kind, b3 = outcome(scaler.apply_scaling, y3, 'shift-and-scale', shift=sh, scale=s, mode='undo')
        cl.append(('explicit shift: undo restores the input',
                   kind == 'ok' and _same_list([fval(v) for v in b3], xs)))
    return cl


def k_minmax(E, L, nanmask):
    from ampycloud import scaler
    N = np()
    xs = _inputs(E, L, nanmask)
    valid = _drop_nan(xs)
    r = E.real('min_range')
    E.assume(r >= 0)
    cl = []
    if not valid:
        kind, y = outcome(scaler.apply_scaling, N.array(xs), 'minmax-scale', min_range=r)
        E.cover('all NaN passthrough')
        cl.append(('all-NaN input passes through', kind == 'ok' and _same_list([fval(v) for v in y], xs)))
        return cl
    mx, mn = valid[0], valid[0]
    for v in valid[1:]:
        mx = ite(v >= mx, v, mx) if is_sym(v >= mx) else (v if v >= mx else mx)
        mn = ite(v <= mn, v, mn) if is_sym(v <= mn) else (v if v <= mn else mn)
    span = mx - mn
    E.assume(Or(span > 0, r > 0))          # resulting range > 0 (documented domain)
    kind, y = outcome(scaler.apply_scaling, N.array(xs), 'minmax-scale', min_range=r)
    cl.append(('no exception', kind == 'ok'))
    if kind != 'ok':
        return cl
    ys = [fval(v) for v in y]
    yv = [v for x, v in zip(xs, ys) if not _isnanc(x)]
    E.cover('span below min_range', span < r)
    E.cover('span above min_range', span > r)
    E.cover('constant data', span == 0)
    cl.append(('order preserving', _order(xs, ys)))
    cl.append(('NaN stays NaN, nothing else becomes NaN', _nan_kept(xs, ys)))
    cl.append(('into [0,1]', And([And(v >= 0, v <= 1) for v in yv])))
    # the minimum range is honoured: scaled spread = span / max(span, min_range), centred
    ymx, ymn = yv[0], yv[0]
    for v in yv[1:]:
        ymx = ite(v >= ymx, v, ymx) if is_sym(v >= ymx) else (v if v >= ymx else ymx)
        ymn = ite(v <= ymn, v, ymn) if is_sym(v <= ymn) else (v if v <= ymn else ymn)
    big = ite(span >= r, span, r) if is_sym(span >= r) else (span if span >= r else r)
    cl.append(('minimum range honoured', (ymx - ymn) * big == span))
    cl.append(('data centred in the widened range', Implies(span < r, ymn == 1 - ymx)))
    kw = scaler.convert_kwargs(N.array(xs), 'minmax-scale', min_range=r, mode='do')
    y2 = scaler.apply_scaling(N.array(xs), 'minmax-scale', **kw)
    kwu = dict(kw)
    kwu['mode'] = 'undo'
    kind, back = outcome(scaler.apply_scaling, y2, 'minmax-scale', **kwu)
    cl.append(('undo with derived kwargs restores the input', kind == 'ok' and _same_list([fval(v) for v in back], xs)))
    yc = scaler.apply_scaling(N.array(valid), 'minmax-scale', min_range=r)
    cl.append(('NaN entries do not affect the other values', _same_list([fval(v) for v in yc], yv)))
    return cl


def k_step(E, L, nanmask, K):
    from ampycloud import scaler
    N = np()
    xs = _inputs(E, L, nanmask)
    steps = [E.real('step%d' % i) for i in range(K)]
    scales = [E.real('sc%d' % i) for i in range(K + 1)]
    for i in range(K - 1):
        E.assume(steps[i] <= steps[i + 1])
    for s in scales:
        E.assume(s > 0)
    cl = []
    kind, y = outcome(scaler.apply_scaling, N.array(xs), 'step-scale', steps=list(steps), scales=list(scales))
    cl.append(('no exception', kind == 'ok'))
    if kind != 'ok':
        return cl
    ys = [fval(v) for v in y]
    E.cover('scaled')
    cl.append(('order preserving', _order(xs, ys)))
    cl.append(('NaN stays NaN, nothing else becomes NaN', _nan_kept(xs, ys)))
    kind, back = outcome(scaler.apply_scaling, y, 'step-scale', steps=list(steps), scales=list(scales), mode='undo')
    cl.append(('undo restores the input', kind == 'ok' and _same_list([fval(v) for v in back], xs)))
    valid = _drop_nan(xs)
    if valid and len(valid) < len(xs):
        yc = scaler.apply_scaling(N.array(valid), 'step-scale', steps=list(steps), scales=list(scales))
        cl.append(('NaN entries do not affect the other values',
                   _same_list([fval(v) for v in yc], [v for x, v in zip(xs, ys) if not _isnanc(x)])))
    # continuity across every step: for a point p in the piece just below step j,
    # f(step_j) - f(p) == (step_j - p) / scales[j]
    for j in range(K):
        p = E.real('p%d' % j)
        lo = steps[j - 1] if j > 0 else None
        E.assume(And(p < steps[j], True if lo is None else p >= lo))
        f = scaler.apply_scaling(N.array([p, steps[j]]), 'step-scale', steps=list(steps), scales=list(scales))
        f = [fval(v) for v in f]
        cl.append(('continuous at step %d' % j, (f[1] - f[0]) * scales[j] == steps[j] - p))
        E.cover('value exactly on a step', Or([x == steps[j] for x in valid] or [False]))
    return cl


def k_misc(E):
    from ampycloud import scaler
    from ampycloud.errors import AmpycloudError
    N = np()
    x = [E.real('x0'), float('nan'), E.real('x2')]
    E.cover('ran')
    cl = [('fct=None passes through', _same_list([fval(v) for v in scaler.apply_scaling(N.array(x), None)], x))]
    for fct in ('shift-and-scale', 'minmax-scale'):
        k, _ = outcome(scaler.convert_kwargs, N.array(x), fct, mode='undo')
        cl.append(('cannot derive kwargs from scaled data (%s)' % fct, k == 'AmpycloudError'))
    k, _ = outcome(scaler.apply_scaling, N.array(x), 'nope')
    cl.append(('unknown scaling refused', k == 'AmpycloudError'))
    k, _ = outcome(scaler.step_scale, N.array(x), [1, 2], [1, 2], 'do')
    cl.append(('step/scale length mismatch refused', k == 'AmpycloudError'))
    k, _ = outcome(scaler.step_scale, N.array(x), [2, 1], [1, 2, 3], 'do')
    cl.append(('unsorted steps refused', k == 'AmpycloudError'))
    return cl


def _sizes(Lmax, with_k=None):
    out = []
    for L in range(1, Lmax + 1):
        for nm in range(1 << L):
            if with_k is None:
                out.append((L, nm))
            else:
                for K in with_k:
                    out.append((L, nm, K))
    return out


HARNESSES = [
    H('K-scale-shift', k_shift, quick=_sizes(4), thorough=_sizes(4), float_model='R',
      cover=['scaled', 'explicit shift of exactly 0'],
      doc='shift-and-scale through apply_scaling/convert_kwargs: order, NaN, default shift, explicit shift, do/undo'),
    H('K-scale-minmax', k_minmax, quick=_sizes(4), thorough=_sizes(4), float_model='R',
      cover=['all NaN passthrough', 'span below min_range', 'span above min_range', 'constant data'],
      doc='minmax-scale with min_range: order, NaN, [0,1], minimum range honoured and centred, do/undo'),
    H('K-scale-step', k_step, quick=[(L, nm, K) for (L, nm) in _sizes(2) for K in (0, 1, 2, 3)] + [(3, nm, K) for nm in (0, 2, 5) for K in (1, 2)],
      thorough=[(L, nm, K) for (L, nm) in _sizes(3) for K in (0, 1, 2, 3)], float_model='R',
      cover=['scaled', 'value exactly on a step'],
      doc='step-scale with K symbolic sorted steps and K+1 positive scales: order, NaN, do/undo, continuity at every step'),
    H('K-scale-misc', k_misc, quick=[()], thorough=[()], cover=['ran'], float_model='R',
      doc='passthrough for fct=None and the documented refusals'),
]
get_harness = make_get(HARNESSES)
