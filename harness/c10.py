"""C10 - outcome depends only on the four column values, not on index labels or layout."""
from harness.common import *
from harness import pipeline
from harness.pipeline import snapshot, same_table, WHICH
from harness.tables import same_code

SPEC = {
    'technique': '2-run symbolic execution of the whole chain (real constructor incl. check_data_consistency and MSA cropping, '
                 'three stages, messages): the same symbolic accepted table once plainly indexed and once with arbitrary '
                 '(repeated) symbolic index labels / extra column / permuted columns / other dtypes; equality of every table '
                 'entry, per-hit assignment and message decided per path by z3',
    'bounds': {'quick': 'accepted tables of <= 2 hits (one ceilometer; two ceilometers for the plain relabelling; first and second hits, any heights incl. NaN; one variant with type-0 rows that carry a height), index labels any '
                        'ints (repeats allowed), MSA symbolic or None, 5 layout variants',
               'thorough': 'every variant with and without MSA at 2 hits of one ceilometer; 2 ceilometers for three variants'},
    'outside': 'dtype coercions beyond the modelled ones (type as integral float, dt as int, ceilo as object): what astype does '
               'to text or narrow ints is pandas behaviour; non-integer index labels (any hashable label behaves like an int label in the model)',
    'budget_s': {'quick': 1200, 'thorough': 3600},
}
ORDERS = [None, ['type', 'height', 'dt', 'ceilo'], ['dt', 'ceilo', 'type', 'height']]


def _cmp(a, b):
    cl = [set(a['data']) == set(b['data'])]
    if set(a['data']) == set(b['data']):
        cl.append(same_table(a['data'], {k: b['data'][k] for k in a['data']}))
    for w in WHICH:
        cl.append(same_table(a[w], b[w]))
        ma, mb = a['msg_' + w], b['msg_' + w]
        cl.append(same_code(ma, mb) if isinstance(ma, str) and isinstance(mb, str) else ma is mb)
    cl.append(a['n'] == b['n'])
    cl.append(Iff(a['flag'], b['flag']))
    return And(cl)


def h_ingest(E, N, C, pvar, variant):
    # variant 6: plain relabelling of a table that may hold type-0 rows *with* a height (accepted with a warning only)
    T = Table(E, N, C, tmin=0 if variant == 6 else 1, tmax=2)
    if variant == 6:
        E.cover('a non-detection row carrying a height', Or([And(t == 0, Not(isnan(h))) for t, h in zip(T.type, T.height)]))
    prms = pipeline.sym_prms(E, pvar)
    kA, chA, stA = pipeline.run_pipeline(T.frame(), prms)
    idx = [E.int('idx%d' % i) for i in range(N)]
    cols = T.cols()
    extra, order = None, None
    if variant == 1:
        extra = {'note': [E.int('x%d' % i) for i in range(N)]}
    if variant in (2, 3):
        order = ORDERS[variant - 1]
    if variant == 4:
        cols['type'] = [core.SymFloat.of(t) if is_sym(t) else float(t) for t in T.type]
    if extra:
        cols.update(extra)
    if order:
        cols = {k: cols[k] for k in order}
    dfB = frame(cols, index=idx if shim() else [int(i) for i in idx])
    if variant == 4:
        if shim():
            dfB.dtypes['type'] = float
        else:
            dfB['type'] = dfB['type'].astype(float)
    if variant == 5:
        if shim():
            dfB.dtypes['ceilo'] = object
        else:
            dfB['ceilo'] = dfB['ceilo'].astype(object)
    kB, chB, stB = pipeline.run_pipeline(dfB, prms)
    E.cover('repeated index labels', Or([idx[i] == idx[j] for i in range(N) for j in range(i)] or [N < 2]))
    E.cover('non-decreasing repeated labels', And([idx[i] <= idx[i + 1] for i in range(N - 1)] + [Or([idx[i] == idx[i + 1] for i in range(N - 1)] or [N < 2])]))
    E.cover('shuffled labels', Or([idx[i] > idx[i + 1] for i in range(N - 1)] or [N < 2]))
    cl = [('both runs end alike (no exception in either)', kA == 'ok' and kB == 'ok')]
    if kA != 'ok' or kB != 'ok':
        E.note('outcomes', '%s@%s / %s@%s: %s' % (kA, stA, kB, stB, str(chB)[:200]))
        return cl
    if prms.get('MSA') is not None:
        E.cover('a hit cropped above the MSA', len(chA.data) < N)
    cl.append(('same per-hit assignment, tables and messages', _cmp(snapshot(chA), snapshot(chB))))
    return cl


HARNESSES = [
    H('H-ingest', h_ingest, quick=[(1, 1, 2, 0), (2, 1, 0, 0), (2, 1, 2, 0), (2, 1, 2, 1), (2, 1, 0, 2), (2, 1, 2, 4), (2, 1, 2, 5), (2, 1, 0, 6), (2, 2, 0, 0)],
      thorough=[(1, 1, 2, 0)] + [(2, 1, p, v) for p in (0, 2) for v in range(6)] + [(2, 1, 0, 6), (2, 1, 2, 6), (2, 2, 0, 0), (2, 2, 0, 5), (2, 2, 2, 0)],
      float_model='R', scripted=True,
      cover=['repeated index labels', 'non-decreasing repeated labels', 'shuffled labels', 'a hit cropped above the MSA'],
      doc='whole chain twice: RangeIndex frame vs relabelled / re-laid-out frame of the same values: identical results'),
]
get_harness = make_get(HARNESSES)
