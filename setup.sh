#!/bin/sh
# Builds the overlay venv /verif/.venv offline: /venv's interpreter and site-packages
# (real numpy/pandas/sklearn/statsmodels, used only by the "real world" replays and the
# model validation) plus z3-solver (and crosshair-tool) from the offline wheelhouse.
set -e
cd "$(dirname "$0")"
V=.venv
if [ ! -x $V/bin/python ] || ! $V/bin/python -c "import z3, numpy" 2>/dev/null; then
  rm -rf $V
  /venv/bin/python -m venv $V
  SP=$($V/bin/python -c "import sysconfig;print(sysconfig.get_paths()['purelib'])")
  printf '%s\n' "import site; site.addsitedir('/venv/lib/python3.12/site-packages')" > "$SP/_venv_overlay.pth"
  PIP_NO_INDEX=1 $V/bin/python -m pip install -q --no-index --find-links /opt/veriftools/wheels z3-solver jsonschema >/dev/null 2>&1 \
    || PIP_NO_INDEX=1 $V/bin/python -m pip install --no-index --find-links /opt/veriftools/wheels z3-solver jsonschema
fi
$V/bin/python -c "import z3, numpy, pandas, sklearn, statsmodels; print('overlay venv ok: z3', z3.get_version_string())"
