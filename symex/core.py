"""Symbolic executor: z3-term values with operator overloading, decision-prefix DFS.

One module-level engine (ENG) is current at any time. It is either a SymEngine (shim world:
values are z3 terms, `bool(SymBool)` forks) or a ConcreteEngine (real world replays: the same
harness code runs on plain Python values taken from a solver model).

Float models: SymFloat = NaN-extended reals ("R"), SymFP = IEEE-754 binary64 ("F").
"""
import z3, time, math, builtins, fractions, os

F64 = z3.Float64()
RNE = z3.RNE()


class EngineSignal(BaseException):
    """Engine-internal control flow; deliberately not an Exception."""


class Abort(EngineSignal):
    """Current path is infeasible under an assumption."""


class ShimGap(EngineSignal):
    """The code under test used a library feature the models do not implement."""


class Inconclusive(EngineSignal):
    """Solver answered unknown / budget exhausted / replay diverged."""


ENG = None


def engine():
    return ENG


def set_engine(e):
    global ENG
    ENG = e
    return e


# ----------------------------------------------------------------------------------------------
# engines
# ----------------------------------------------------------------------------------------------
class SymEngine:
    symbolic = True

    def __init__(self, query_timeout_ms=120000, logic=None):
        self.solver = z3.Solver()
        self.solver.set('timeout', query_timeout_ms)
        self.query_timeout_ms = query_timeout_ms
        self.logic = logic
        self.model_solver = self.solver
        self.pool = []          # models found so far (witnesses reused across paths)
        self.pool_cap = 16
        self.witness_hits = 0
        self.queries = 0
        self.qtime = 0.0
        self.paths = 0          # completed paths (property evaluated)
        self.aborted = 0        # paths ended by an infeasible assumption
        self.decisions = 0
        self.infeasible_sides = 0
        self.unknown = 0
        self.obligations = 0
        self.discharged = 0
        self.cover_goals = {}   # name -> bool met
        self.samples = []
        self.assumption_log = set()
        self.cex = []           # list of dict(model=..., clauses=[names], inputs=...)
        self.max_cex = 1
        self.nontrivial = 0
        self.stop_on_cex = True
        self._reset_path([])

    # -- per path state
    def _reset_path(self, prefix):
        self.trace = list(prefix)
        self.pos = 0
        self.pending = []
        self.pc = []
        self.cache = {}
        self.nfresh = 0
        self.atoms = []         # fragment-string atoms of this path
        self.inputs = {}        # name -> z3 const (declared inputs of this path)
        self.path_notes = {}
        self.path_cover = set()
        self.live = list(self.pool)   # witnesses that satisfy the path condition so far

    # -- solver
    def check(self, *a):
        t = time.time()
        if self.logic:
            # F-model harnesses: a fresh tactic-based solver per query (bit-blasting) is orders of
            # magnitude faster on QF_FP than the incremental core used with push/pop
            s = z3.SolverFor(self.logic)
            s.set('timeout', self.query_timeout_ms)
            s.add(self.pc)
            s.add(list(a))
            self.model_solver = s
            r = str(s.check())
        else:
            self.model_solver = self.solver
            r = str(self.solver.check(*a))
        self.qtime += time.time() - t
        self.queries += 1
        if r == 'unknown':
            self.unknown += 1
            raise Inconclusive('solver answered unknown (%s)' % self.model_solver.reason_unknown())
        if r == 'sat':
            try:
                m = self.model_solver.model()
                self.pool.append(m)
                if len(self.pool) > self.pool_cap:
                    del self.pool[0]
                self.last_model = m
                self._new_witness = m
            except z3.Z3Exception:
                pass
        return r

    # -- witnesses: a model that satisfies the path condition proves a branch side feasible
    #    without a solver call (only infeasibility needs the solver)
    def _holds(self, m, e):
        try:
            return z3.is_true(m.eval(e, model_completion=True))
        except z3.Z3Exception:
            return False

    def _add_constraint(self, c):
        self.solver.add(c)
        self.pc.append(c)
        if self.live:
            self.live = [m for m in self.live if self._holds(m, c)]

    def _witness(self, e):
        for m in self.live:
            if self._holds(m, e):
                self.witness_hits += 1
                return m
        return None

    def _sat(self, e):
        """Is path condition AND e satisfiable? Tries the known witnesses first."""
        if self._witness(e) is not None:
            return True
        self._new_witness = None
        r = self.check(e)
        if r == 'sat' and self._new_witness is not None:
            # the new model satisfies the current path condition: it is live
            self.live.append(self._new_witness)
            if len(self.live) > self.pool_cap:
                del self.live[0]
        return r == 'sat'

    def decide(self, e):
        key = e.get_id()
        if key in self.cache:
            return self.cache[key]
        if self.pos < len(self.trace):
            b = self.trace[self.pos]
            self.pos += 1
        else:
            if self._sat(e):
                if self._sat(z3.Not(e)):
                    self.pending.append(self.trace[:self.pos] + [False])
                else:
                    self.infeasible_sides += 1
                b = True
            else:
                self.infeasible_sides += 1
                b = False
            self.trace.append(b)
            self.pos += 1
            self.decisions += 1
        c = e if b else z3.Not(e)
        self._add_constraint(c)
        self.cache[key] = b
        return b

    def fresh(self):
        self.nfresh += 1
        return self.nfresh

    def assume(self, cond, note=None):
        e = B(cond)
        if z3.is_true(e):
            return
        if note:
            self.assumption_log.add(note)
        self._add_constraint(e)
        if z3.is_false(e) or not self._sat(z3.BoolVal(True)):
            raise Abort()

    def cover(self, name, cond=True):
        """Vacuity guard: goal `name` is met if `cond` is satisfiable on this path."""
        self.cover_goals.setdefault(name, False)
        e = B(cond)
        if z3.is_false(e):
            return
        if self.cover_goals[name] and name in self.path_cover:
            return
        if z3.is_true(e) or self._sat(e):
            self.cover_goals[name] = True
            self.path_cover.add(name)

    # -- inputs
    def _decl(self, name, const):
        self.inputs[name] = const
        return const

    def real(self, name, nan=False):
        v = self._decl(name, z3.Real(name))
        if nan:
            n = self._decl(name + '#nan', z3.Bool(name + '#nan'))
            return SymFloat(v, n)
        return SymFloat(v)

    def fp(self, name):
        return SymFP(self._decl(name, z3.FP(name, F64)))

    def int(self, name, lo=None, hi=None):
        v = self._decl(name, z3.Int(name))
        if lo is not None:
            self.assume(SymBool(v >= lo))
        if hi is not None:
            self.assume(SymBool(v <= hi))
        return SymInt(v)

    def bool(self, name):
        return SymBool(self._decl(name, z3.Bool(name)))

    def choose(self, n, label):
        """Non-deterministic choice in range(n): concrete on each path (fork)."""
        if n <= 1:
            return 0
        v = self._decl('ch:' + label, z3.Int('ch:' + label))
        dom = z3.And(v >= 0, v < n)
        self._add_constraint(dom)
        for k in range(n - 1):
            if self.decide(v == k):
                return k
        return n - 1

    def stub_choose(self, n, label):
        """Choice made by an environment stub (not an input of the harness)."""
        return self.choose(n, 'stub:%s:%d' % (label, self.fresh()))

    def stub_real(self, label):
        nm = 'stub:%s:%d' % (label, self.fresh())
        return SymFloat(self._decl(nm, z3.Real(nm)))

    def note(self, key, val):
        self.path_notes[key] = val

    # -- exploration
    def explore(self, fn, prefixes=None, max_paths=None, deadline=None, frontier_limit=None):
        """Depth-first exploration of fn from the given decision prefixes.

        fn(engine) -> list of (clause name, condition). Returns 'done', 'frontier' (pending
        prefixes left in self.frontier because frontier_limit was reached) or 'budget'.
        """
        stack = [list(p) for p in (prefixes if prefixes is not None else [[]])]
        self.frontier = []
        while stack:
            if frontier_limit is not None and len(stack) >= frontier_limit:
                self.frontier = stack
                return 'frontier'
            if deadline is not None and time.time() > deadline:
                self.frontier = stack
                return 'budget'
            if max_paths is not None and self.paths + self.aborted >= max_paths:
                self.frontier = stack
                return 'budget'
            self._reset_path(stack.pop())
            self.solver.push()
            try:
                clauses = fn(self)
                self.paths += 1
                self._end_of_path(clauses)
            except Abort:
                self.aborted += 1
            finally:
                self.solver.pop()
            stack.extend(self.pending)
            if self.cex and self.stop_on_cex and len(self.cex) >= self.max_cex:
                self.frontier = stack
                return 'cex'
        return 'done'

    def _end_of_path(self, clauses):
        named = [(n, B(c)) for n, c in clauses]
        prop = z3.And([c for _, c in named]) if named else z3.BoolVal(True)
        self.obligations += 1
        if self.path_cover:
            self.nontrivial += 1
        if len(self.samples) < 3:
            self.samples.append(self._sample())
        if z3.is_true(z3.simplify(prop)):
            self.discharged += 1
            return
        m = self._witness(z3.Not(prop))
        if m is None:
            if self.check(z3.Not(prop)) == 'unsat':
                self.discharged += 1
                return
            m = self.model_solver.model()
        m = self._readable_model(prop, m)
        failed = [n for n, c in named if not z3.is_true(m.eval(c, model_completion=True))]
        self.cex.append({'failed': failed, 'inputs': self.model_inputs(m), 'notes': dict(self.path_notes)})

    def _sample(self):
        try:
            if self.live:
                m = self.live[-1]
            else:
                if self.check() != 'sat':
                    return {'note': 'no model'}
                m = self.model_solver.model()
            d = self.model_inputs(m)
            return {'decisions': len(self.trace), 'cover': sorted(self.path_cover),
                    'input': {k: d[k] for k in list(d)[:24]}}
        except Exception as e:  # pragma: no cover
            return {'note': 'sample failed: %r' % (e,)}

    def _readable_model(self, prop, m):
        """Try to find a model of the failing path whose reals are integers."""
        reals = [c for c in self.inputs.values() if z3.is_real(c) and not str(c).startswith('stub:')]
        if not reals or self.logic:
            return m
        self.solver.push()
        try:
            self.solver.add(z3.Not(prop))
            for step in (1, 2, 4, 8):
                self.solver.push()
                self.solver.add([z3.IsInt(c * step) for c in reals])
                self.solver.add([z3.And(c < 10 ** 7, c > -10 ** 7) for c in reals])
                self.solver.set('timeout', 20000)
                r = self.solver.check()
                if r == z3.sat:
                    m = self.solver.model()
                    self.solver.pop()
                    break
                self.solver.pop()
        finally:
            self.solver.set('timeout', 120000)
            self.solver.pop()
        return m

    def model_inputs(self, m):
        out = {}
        for name, c in self.inputs.items():
            v = m.eval(c, model_completion=True)
            out[name] = _pyval(v)
        return out

    def stats(self):
        return dict(paths=self.paths, aborted=self.aborted, decisions=self.decisions,
                    infeasible_sides=self.infeasible_sides, queries=self.queries,
                    solver_s=round(self.qtime, 3), unknown=self.unknown, witness_hits=self.witness_hits,
                    obligations=self.obligations, discharged=self.discharged,
                    nontrivial=self.nontrivial)


def _pyval(v):
    if z3.is_true(v):
        return True
    if z3.is_false(v):
        return False
    if z3.is_int_value(v):
        return v.as_long()
    if z3.is_rational_value(v):
        f = fractions.Fraction(v.numerator_as_long(), v.denominator_as_long())
        return int(f) if f.denominator == 1 else {'frac': [f.numerator, f.denominator]}
    if z3.is_algebraic_value(v):
        return {'approx': float(v.approx(20).as_fraction())}
    if z3.is_fp(v) or z3.is_fprm(v):
        if z3.is_fp_value(v) if hasattr(z3, 'is_fp_value') else True:
            try:
                if v.isNaN():
                    return {'fp': 'nan'}
                if v.isInf():
                    return {'fp': '-inf' if v.isNegative() else 'inf'}
                sign = -1.0 if v.sign() else 1.0
                sig = v.significand_as_long()
                exp = v.exponent_as_long(biased=False)
                if v.isSubnormal() or v.isZero():
                    val = sign * sig * 2.0 ** (-1074) if v.isSubnormal() else sign * 0.0
                else:
                    val = sign * (1 + sig / 2.0 ** 52) * 2.0 ** exp
                return {'fp': repr(val)}
            except Exception:
                return {'fp': str(v)}
    if z3.is_string_value(v):
        return v.as_string()
    return str(v)


def from_model_value(x):
    """Inverse of _pyval for concrete replays."""
    if isinstance(x, dict):
        if 'frac' in x:
            return x['frac'][0] / x['frac'][1]
        if 'approx' in x:
            return x['approx']
        if 'fp' in x:
            return float(x['fp'])
    return x


class ConcreteEngine:
    """Runs harness code on concrete values (real-world replay of a model)."""
    symbolic = False

    def __init__(self, vals):
        self.vals = dict(vals)
        self.atoms = []
        self.path_notes = {}
        self.nfresh = 0

    def _get(self, name, default):
        return from_model_value(self.vals.get(name, default))

    def real(self, name, nan=False):
        if nan and self._get(name + '#nan', False):
            return float('nan')
        return float(self._get(name, 0))

    def fp(self, name):
        return float(self._get(name, 0.0))

    def int(self, name, lo=None, hi=None):
        v = int(self._get(name, lo if lo is not None else 0))
        if (lo is not None and v < lo) or (hi is not None and v > hi):
            raise Abort()
        return v

    def bool(self, name):
        return bool(self._get(name, False))

    def choose(self, n, label):
        return int(self._get('ch:' + label, 0)) if n > 1 else 0

    def fresh(self):
        self.nfresh += 1
        return self.nfresh

    def stub_choose(self, n, label):
        return self.choose(n, 'stub:%s:%d' % (label, self.fresh()))

    def stub_real(self, label):
        return float(self._get('stub:%s:%d' % (label, self.fresh()), 0))

    def assume(self, cond, note=None):
        if not cond:
            raise Abort()

    def cover(self, name, cond=True):
        pass

    def note(self, key, val):
        self.path_notes[key] = val


# ----------------------------------------------------------------------------------------------
# values
# ----------------------------------------------------------------------------------------------
def B(x):
    """z3 Bool of a condition (SymBool, bool, numpy-model bool, z3 BoolRef)."""
    if isinstance(x, SymBool):
        return x.e
    if isinstance(x, bool):
        return z3.BoolVal(x)
    if isinstance(x, z3.BoolRef):
        return x
    if type(x).__name__ in ('bool_', 'bool'):
        return z3.BoolVal(bool(x))
    raise TypeError('not a condition: %r' % (type(x),))


LAZY = os.environ.get('SYMEX_EAGER_SIMPLIFY', '') == ''


class TaintStr(str):
    """str() of a symbolic number: fine for log messages, but a program that compares, hashes, sorts or concatenates it
    (e.g. to build look-up tags out of numbers) cannot be followed by the models."""
    def _gap(self, *a, **k):
        raise ShimGap('text built from a symbolic number is compared / hashed / concatenated')
    __eq__ = __ne__ = __lt__ = __le__ = __gt__ = __ge__ = __add__ = __radd__ = __mod__ = __contains__ = _gap
    __hash__ = _gap


class SymBool:
    __slots__ = ('e', '_simp')

    def __init__(self, e):
        # terms are simplified when (and if) they are branched on, not when they are built:
        # most comparison terms only ever become operands of larger terms
        if LAZY:
            self.e = e
            self._simp = False
        else:
            self.e = z3.simplify(e)
            self._simp = True

    def __bool__(self):
        if not self._simp:
            self.e = z3.simplify(self.e)
            self._simp = True
        if z3.is_true(self.e):
            return True
        if z3.is_false(self.e):
            return False
        if not getattr(ENG, 'symbolic', False):
            raise TypeError('SymBool without a symbolic engine')
        return ENG.decide(self.e)

    @staticmethod
    def _o(o):
        if isinstance(o, SymBool):
            return o.e
        if isinstance(o, (bool, int)) and o in (0, 1, True, False):
            return z3.BoolVal(bool(o))
        return None

    def __and__(self, o):
        e = self._o(o)
        return NotImplemented if e is None else SymBool(z3.And(self.e, e))
    __rand__ = __and__

    def __mul__(self, o):
        e = self._o(o)
        if e is None or (isinstance(o, int) and not isinstance(o, bool)):
            # bool * number -> integer arithmetic
            if isinstance(o, (int, SymInt)):
                return self.as_int() * o
            return NotImplemented
        return SymBool(z3.And(self.e, e))
    __rmul__ = __mul__

    def __or__(self, o):
        e = self._o(o)
        return NotImplemented if e is None else SymBool(z3.Or(self.e, e))
    __ror__ = __or__

    def __xor__(self, o):
        e = self._o(o)
        return NotImplemented if e is None else SymBool(z3.Xor(self.e, e))
    __rxor__ = __xor__

    def __invert__(self):
        return SymBool(z3.Not(self.e))

    def __eq__(self, o):
        e = self._o(o)
        return NotImplemented if e is None else SymBool(self.e == e)

    def __ne__(self, o):
        e = self._o(o)
        return NotImplemented if e is None else SymBool(self.e != e)
    __hash__ = None

    def as_int(self):
        return SymInt(z3.If(self.e, 1, 0))

    def __add__(self, o):
        return self.as_int() + o
    __radd__ = __add__

    def __repr__(self):
        return '<SymBool>'


def sbool(x):
    """SymBool or plain bool, plain when decided syntactically."""
    if isinstance(x, SymBool):
        if z3.is_true(x.e):
            return True
        if z3.is_false(x.e):
            return False
        return x
    return bool(x)


class SymInt:
    __slots__ = ('e',)

    def __init__(self, e):
        self.e = z3.IntVal(e) if isinstance(e, int) else e

    @staticmethod
    def lift(o):
        if isinstance(o, SymInt):
            return o.e
        if isinstance(o, SymBool):
            return z3.If(o.e, 1, 0)
        if isinstance(o, bool):
            return z3.IntVal(int(o))
        if isinstance(o, int):
            return z3.IntVal(o)
        return None

    def _cmp(self, o, f):
        if isinstance(o, (SymFloat, float)):
            return f(SymFloat.of(self), o)
        if isinstance(o, (SymFP, SymFPInt)):
            return f(SymFP.of(self), o)
        e = SymInt.lift(o)
        return NotImplemented if e is None else SymBool(f(self.e, e))

    def __lt__(self, o): return self._cmp(o, lambda a, b: a < b)
    def __le__(self, o): return self._cmp(o, lambda a, b: a <= b)
    def __gt__(self, o): return self._cmp(o, lambda a, b: a > b)
    def __ge__(self, o): return self._cmp(o, lambda a, b: a >= b)

    def __eq__(self, o):
        if o is None or isinstance(o, str):
            return False
        return self._cmp(o, lambda a, b: a == b)

    def __ne__(self, o):
        if o is None or isinstance(o, str):
            return True
        return self._cmp(o, lambda a, b: a != b)

    def __hash__(self):
        # every symbolic int hashes alike: dict/set/lru_cache lookups then fall through to __eq__,
        # which forks on the symbolic equality (sound: hash collisions are always legal)
        return 0x5151

    def _ar(self, o, f, r=False):
        if isinstance(o, (SymFloat, float)):
            a, b = (SymFloat.of(o), SymFloat.of(self)) if r else (SymFloat.of(self), SymFloat.of(o))
            return f(a, b)
        if isinstance(o, (SymFP, SymFPInt)):
            a, b = (SymFP.of(o), SymFP.of(self)) if r else (SymFP.of(self), SymFP.of(o))
            return f(a, b)
        e = SymInt.lift(o)
        if e is None:
            return NotImplemented
        a, b = (e, self.e) if r else (self.e, e)
        return SymInt(z3.simplify(f(a, b)))

    def __add__(self, o): return self._ar(o, lambda a, b: a + b)
    def __radd__(self, o): return self._ar(o, lambda a, b: a + b, True)
    def __sub__(self, o): return self._ar(o, lambda a, b: a - b)
    def __rsub__(self, o): return self._ar(o, lambda a, b: a - b, True)
    def __mul__(self, o): return self._ar(o, lambda a, b: a * b)
    def __rmul__(self, o): return self._ar(o, lambda a, b: a * b, True)

    def __truediv__(self, o):
        if isinstance(o, (SymFP, SymFPInt)):
            return SymFP.of(self) / o
        return SymFloat.of(self) / o

    def __rtruediv__(self, o):
        if isinstance(o, (SymFP, SymFPInt)):
            return SymFP.of(o) / SymFP.of(self)
        return SymFloat.of(o) / SymFloat.of(self)

    def __floordiv__(self, o):
        if isinstance(o, int) and not isinstance(o, bool) and o > 0:
            return SymInt(self.e / o)
        raise ShimGap('SymInt // %r' % (o,))

    def __mod__(self, o):
        if isinstance(o, int) and not isinstance(o, bool) and o > 0:
            return SymInt(self.e % o)
        raise ShimGap('SymInt %% %r' % (o,))

    def __neg__(self): return SymInt(-self.e)
    def __pos__(self): return self
    def __abs__(self): return SymInt(z3.If(self.e < 0, -self.e, self.e))
    def __bool__(self): return bool(SymBool(self.e != 0))
    def __index__(self): return concretize_int(self)
    def __int__(self): return concretize_int(self)
    def __repr__(self): return '<SymInt>'
    def __str__(self): return TaintStr('<SymInt>')

    def __format__(self, spec):
        return make_atom(self, spec)


def concretize_int(x):
    """Fork over the feasible values of a symbolic int (must be bounded by the path condition)."""
    v = z3.simplify(x.e)
    if z3.is_int_value(v):
        return v.as_long()
    tries = 0
    while True:
        if ENG.live:
            m = ENG.live[-1]
        else:
            if ENG.check() != 'sat':
                raise Abort()
            m = ENG.model_solver.model()
            ENG.live.append(m)
        k = m.eval(x.e, model_completion=True).as_long()
        if ENG.decide(x.e == k):
            return k
        tries += 1
        if tries > 4096:
            raise Inconclusive('unbounded integer concretisation')


def concretize_fpint(x):
    """Fork over the feasible values of an integral binary64 value (bounded by the path condition)."""
    tries = 0
    while True:
        if ENG.check() != 'sat':
            raise Abort()
        v = ENG.model_solver.model().eval(x.e, model_completion=True)
        k = from_model_value(_pyval(v))
        if k != k or k in (float('inf'), float('-inf')):
            raise ShimGap('index with a non-finite F-model integer')
        if ENG.decide(z3.fpEQ(x.e, fpval(k))):
            return int(k)
        tries += 1
        if tries > 4096:
            raise Inconclusive('unbounded integer concretisation')


class SymFloat:
    """R model: (is-NaN flag, real value)."""
    __slots__ = ('v', 'n')

    def __init__(self, val, nan=None):
        self.v = val
        self.n = z3.BoolVal(False) if nan is None else nan

    @staticmethod
    def of(o):
        if isinstance(o, SymFloat):
            return o
        if isinstance(o, SymInt):
            return SymFloat(z3.ToReal(o.e))
        if isinstance(o, SymBool):
            return SymFloat(z3.If(o.e, z3.RealVal(1), z3.RealVal(0)))
        if isinstance(o, bool):
            return SymFloat(z3.RealVal(int(o)))
        if isinstance(o, int):
            return SymFloat(z3.RealVal(o))
        if isinstance(o, float):
            if o != o:
                return SymFloat(z3.RealVal(0), z3.BoolVal(True))
            if math.isinf(o):
                return _Inf(o > 0)
            return SymFloat(z3.RealVal(fractions.Fraction(o).limit_denominator(10 ** 12)
                                       if abs(o) < 1e15 else fractions.Fraction(o)))
        if type(o).__name__ in ('float64', 'int64', 'bool_'):
            return SymFloat.of(o.item())
        return None

    def isnan(self):
        return SymBool(self.n)

    def _cmp(self, o, f, ne=False):
        o2 = SymFloat.of(o)
        if o2 is None:
            return NotImplemented
        if isinstance(o2, _Inf):
            return o2._rcmp(self, f)
        if isinstance(self, _Inf):
            return self._lcmp(o2, f)
        return SymBool(z3.And(z3.Not(self.n), z3.Not(o2.n), f(self.v, o2.v)))

    def __lt__(self, o): return self._cmp(o, lambda a, b: a < b)
    def __le__(self, o): return self._cmp(o, lambda a, b: a <= b)
    def __gt__(self, o): return self._cmp(o, lambda a, b: a > b)
    def __ge__(self, o): return self._cmp(o, lambda a, b: a >= b)

    def __eq__(self, o):
        if o is None or isinstance(o, str):
            return False
        return self._cmp(o, lambda a, b: a == b)

    def __ne__(self, o):
        if o is None or isinstance(o, str):
            return True
        r = self._cmp(o, lambda a, b: a == b)
        return r if r is NotImplemented else ~r
    __hash__ = None

    def _ar(self, o, f, r=False, name=None):
        o2 = SymFloat.of(o)
        if o2 is None:
            return NotImplemented
        if isinstance(o2, _Inf):
            # finite (op) inf: let the infinity decide (o2 is the right operand unless r)
            return getattr(o2, ('__%s__' if r else '__r%s__') % name)(self)
        a, b = (o2, self) if r else (self, o2)
        return SymFloat(z3.simplify(f(a.v, b.v)), z3.simplify(z3.Or(a.n, b.n)))

    def __add__(self, o): return self._ar(o, lambda a, b: a + b, False, 'add')
    def __radd__(self, o): return self._ar(o, lambda a, b: a + b, True, 'add')
    def __sub__(self, o): return self._ar(o, lambda a, b: a - b, False, 'sub')
    def __rsub__(self, o): return self._ar(o, lambda a, b: a - b, True, 'sub')
    def __mul__(self, o): return self._ar(o, lambda a, b: a * b, False, 'mul')
    def __rmul__(self, o): return self._ar(o, lambda a, b: a * b, True, 'mul')

    def _div(self, o, r=False):
        o2 = SymFloat.of(o)
        if o2 is None:
            return NotImplemented
        a, b = (o2, self) if r else (self, o2)
        if isinstance(b, _Inf):
            return b.__rtruediv__(a)
        if isinstance(a, _Inf):
            return a.__truediv__(b)
        zero = SymBool(z3.And(z3.Not(b.n), b.v == 0))
        if bool(zero):
            # numpy float semantics: x/0 = +-inf, 0/0 = nan/0 = nan (the path forks on it)
            if bool(SymBool(z3.Or(a.n, a.v == 0))):
                return SymFloat(z3.RealVal(0), z3.BoolVal(True))
            return _Inf(bool(SymBool(a.v > 0)))
        return SymFloat(z3.simplify(a.v / b.v), z3.simplify(z3.Or(a.n, b.n)))

    def __truediv__(self, o): return self._div(o)
    def __rtruediv__(self, o): return self._div(o, True)
    def __neg__(self): return SymFloat(-self.v, self.n)
    def __bool__(self): return bool(SymBool(z3.Or(self.n, self.v != 0)))   # NaN is truthy
    def __pos__(self): return self
    def __abs__(self): return SymFloat(z3.If(self.v < 0, -self.v, self.v), self.n)

    def __pow__(self, k):
        if k == 2:
            return self * self
        raise ShimGap('pow %r' % (k,))

    def __repr__(self): return '<SymFloat>'
    def __str__(self): return TaintStr('<SymFloat>')

    def __format__(self, spec):
        return '<float>'

    def __float__(self):
        raise ShimGap('float() of a symbolic value reached C level')


class _Inf(SymFloat):
    __slots__ = ('pos',)

    def __init__(self, pos):
        self.pos = pos
        self.n = z3.BoolVal(False)
        self.v = None

    def _rcmp(self, x, f):
        # x (finite or NaN) <op> +-inf
        if isinstance(x, _Inf):
            return SymBool(z3.BoolVal(bool(f(1 if x.pos else -1, 1 if self.pos else -1))))
        r = f(0, 1 if self.pos else -1)
        return SymBool(z3.And(z3.Not(x.n), z3.BoolVal(bool(r))))

    def _lcmp(self, x, f):
        r = f(1 if self.pos else -1, 0)
        return SymBool(z3.And(z3.Not(x.n), z3.BoolVal(bool(r))))

    def isnan(self):
        return SymBool(z3.BoolVal(False))

    def _scaled(self, o, div=False):
        o2 = SymFloat.of(o)
        if o2 is None:
            return NotImplemented
        if isinstance(o2, _Inf):
            if div:
                return SymFloat(z3.RealVal(0), z3.BoolVal(True))
            return _Inf(self.pos == o2.pos)
        if bool(o2.isnan()) or bool(SymBool(o2.v == 0)):
            if div and not bool(o2.isnan()):
                return _Inf(self.pos)
            return SymFloat(z3.RealVal(0), z3.BoolVal(True))
        return _Inf(self.pos == bool(SymBool(o2.v > 0)))

    def __mul__(self, o): return self._scaled(o)
    __rmul__ = __mul__
    def __truediv__(self, o): return self._scaled(o, True)

    def __rtruediv__(self, o):
        o2 = SymFloat.of(o)
        if o2 is None:
            return NotImplemented
        if isinstance(o2, _Inf):
            return SymFloat(z3.RealVal(0), z3.BoolVal(True))
        return SymFloat(z3.RealVal(0), o2.n)

    def _shift(self, o, sign=1):
        o2 = SymFloat.of(o)
        if o2 is None:
            return NotImplemented
        if isinstance(o2, _Inf):
            if (o2.pos == self.pos) == (sign > 0):
                return _Inf(self.pos)
            return SymFloat(z3.RealVal(0), z3.BoolVal(True))
        if bool(o2.isnan()):
            return SymFloat(z3.RealVal(0), z3.BoolVal(True))
        return _Inf(self.pos)

    def __add__(self, o): return self._shift(o)
    __radd__ = __add__
    def __sub__(self, o): return self._shift(o, -1)

    def __rsub__(self, o):
        r = self._shift(o, -1)
        return _Inf(not r.pos) if isinstance(r, _Inf) else r

    def __neg__(self): return _Inf(not self.pos)
    def __abs__(self): return _Inf(True)
    def __bool__(self): return True


def fpval(o):
    return z3.FPVal(float(o), F64)


class SymFP:
    """F model: IEEE-754 binary64, round-to-nearest-even."""
    __slots__ = ('e',)

    def __init__(self, e):
        self.e = e

    @staticmethod
    def of(o):
        if isinstance(o, SymFP):
            return o
        if isinstance(o, SymFPInt):
            return SymFP(o.e)
        if isinstance(o, SymInt):
            return SymFP(z3.fpToFP(RNE, z3.ToReal(o.e), F64))
        if isinstance(o, bool):
            return SymFP(fpval(int(o)))
        if isinstance(o, (int, float)):
            return SymFP(fpval(o))
        if type(o).__name__ in ('float64', 'int64'):
            return SymFP(fpval(o.item()))
        return None

    def isnan(self):
        return SymBool(z3.fpIsNaN(self.e))

    def _cmp(self, o, f):
        o2 = SymFP.of(o)
        return NotImplemented if o2 is None else SymBool(f(self.e, o2.e))

    def __lt__(self, o): return self._cmp(o, z3.fpLT)
    def __le__(self, o): return self._cmp(o, z3.fpLEQ)
    def __gt__(self, o): return self._cmp(o, z3.fpGT)
    def __ge__(self, o): return self._cmp(o, z3.fpGEQ)

    def __eq__(self, o):
        if o is None or isinstance(o, str):
            return False
        return self._cmp(o, z3.fpEQ)

    def __ne__(self, o):
        if o is None or isinstance(o, str):
            return True
        r = self._cmp(o, z3.fpEQ)
        return r if r is NotImplemented else ~r
    __hash__ = None

    def _ar(self, o, f, r=False):
        o2 = SymFP.of(o)
        if o2 is None:
            return NotImplemented
        a, b = (o2, self) if r else (self, o2)
        return SymFP(f(RNE, a.e, b.e))

    def __add__(self, o): return self._ar(o, z3.fpAdd)
    def __radd__(self, o): return self._ar(o, z3.fpAdd, True)
    def __sub__(self, o): return self._ar(o, z3.fpSub)
    def __rsub__(self, o): return self._ar(o, z3.fpSub, True)
    def __mul__(self, o): return self._ar(o, z3.fpMul)
    def __rmul__(self, o): return self._ar(o, z3.fpMul, True)
    def __truediv__(self, o): return self._ar(o, z3.fpDiv)
    def __rtruediv__(self, o): return self._ar(o, z3.fpDiv, True)
    def __neg__(self): return SymFP(z3.fpNeg(self.e))
    def __bool__(self): return bool(SymBool(z3.Not(z3.fpIsZero(self.e))))
    def __pos__(self): return self
    def __abs__(self): return SymFP(z3.fpAbs(self.e))
    def __repr__(self): return '<SymFP>'
    def __str__(self): return TaintStr('<SymFP>')

    def __format__(self, spec):
        return '<float>'

    def __float__(self):
        raise ShimGap('float() of a symbolic value reached C level')


class SymFPInt(SymFP):
    """An integral binary64 value standing for a Python/numpy int (result of int(x), astype(int))."""
    __slots__ = ()

    def __format__(self, spec):
        return make_atom(self, spec)

    def __repr__(self): return '<SymFPInt>'

    def __index__(self):
        return concretize_fpint(self)

    def __int__(self):
        return concretize_fpint(self)

    def __neg__(self):
        return SymFPInt(z3.fpNeg(self.e))


def is_sym(x):
    return isinstance(x, (SymBool, SymInt, SymFloat, SymFP))


def isnan(x):
    if isinstance(x, (SymFloat, SymFP)):
        return x.isnan()
    if isinstance(x, float):
        return x != x
    if type(x).__name__ == 'float64':
        return bool(x != x)
    return False


def ite(c, a, b):
    """Merge two scalars under condition c without forking where possible."""
    if not isinstance(c, SymBool):
        return a if c else b
    if z3.is_true(c.e):
        return a
    if z3.is_false(c.e):
        return b
    if isinstance(a, (SymFP,)) or isinstance(b, (SymFP,)):
        a2, b2 = SymFP.of(a), SymFP.of(b)
        if a2 is not None and b2 is not None:
            cls = SymFPInt if isinstance(a, SymFPInt) and isinstance(b, SymFPInt) else SymFP
            return cls(z3.If(c.e, a2.e, b2.e))
    if getattr(ENG, 'logic', None) == 'QF_FP' and not isinstance(a, SymFloat) and not isinstance(b, SymFloat) \
            and isinstance(a, (int, float)) and isinstance(b, (int, float)) \
            and (isinstance(a, float) or isinstance(b, float)):
        return SymFP(z3.If(c.e, fpval(a), fpval(b)))
    if isinstance(a, (SymFloat, float)) or isinstance(b, (SymFloat, float)):
        a2, b2 = SymFloat.of(a), SymFloat.of(b)
        if a2 is not None and b2 is not None and not isinstance(a2, _Inf) and not isinstance(b2, _Inf):
            return SymFloat(z3.If(c.e, a2.v, b2.v), z3.simplify(z3.If(c.e, a2.n, b2.n)))
    if isinstance(a, (SymInt, int)) and isinstance(b, (SymInt, int)) \
            and not isinstance(a, bool) and not isinstance(b, bool):
        return SymInt(z3.If(c.e, SymInt.lift(a), SymInt.lift(b)))
    if isinstance(a, (SymBool, bool)) and isinstance(b, (SymBool, bool)):
        return SymBool(z3.If(c.e, B(a), B(b)))
    return a if bool(c) else b


# ----------------------------------------------------------------------------------------------
# fragment strings (formatted symbolic integers inside ordinary str objects)
# ----------------------------------------------------------------------------------------------
_TOK_L, _TOK_R = '', ''


def make_atom(val, spec):
    """Called by __format__ of symbolic ints: returns a str holding an opaque token."""
    ENG.atoms.append((val, spec))
    return '%s%d%s' % (_TOK_L, len(ENG.atoms) - 1, _TOK_R)


def decode_fragments(s):
    """Split a str produced by the code under test into pieces: str | (value, spec)."""
    out, i = [], 0
    while i < len(s):
        j = s.find(_TOK_L, i)
        if j < 0:
            out.append(s[i:])
            break
        if j > i:
            out.append(s[i:j])
        k = s.index(_TOK_R, j)
        out.append(ENG.atoms[int(s[j + 1:k])])
        i = k + 1
    return out


# ----------------------------------------------------------------------------------------------
# world-independent logic helpers for harness oracles (work on bool / SymBool / z3)
# ----------------------------------------------------------------------------------------------
def _all_concrete(xs):
    return builtins.all(isinstance(x, bool) or type(x).__name__ == 'bool_' for x in xs)


def And(*xs):
    xs = _flatten(xs)
    if _all_concrete(xs):
        return builtins.all(bool(x) for x in xs)
    return SymBool(z3.And([B(x) for x in xs]))


def Or(*xs):
    xs = _flatten(xs)
    if _all_concrete(xs):
        return builtins.any(bool(x) for x in xs)
    return SymBool(z3.Or([B(x) for x in xs]))


def Not(x):
    if _all_concrete([x]):
        return not bool(x)
    return SymBool(z3.Not(B(x)))


def Implies(a, b):
    return Or(Not(a), b)


def Iff(a, b):
    if _all_concrete([a, b]):
        return bool(a) == bool(b)
    return SymBool(B(a) == B(b))


def _flatten(xs):
    out = []
    for x in xs:
        if isinstance(x, (list, tuple)):
            out.extend(_flatten(x))
        else:
            out.append(x)
    return out


def count_true(xs):
    """Number of true conditions, as int or SymInt."""
    t = 0
    for x in xs:
        if isinstance(x, SymBool):
            t = t + x.as_int()
        else:
            t = t + (1 if x else 0)
    return t


def same_float(a, b):
    """a and b are the same float value, NaN equal to NaN. On concrete values (real-world replays)
    the comparison tolerates 1e-9 relative: replays run in binary64, the R-model claims are over the reals."""
    if not is_sym(a) and not is_sym(b):
        try:
            a, b = float(a), float(b)
        except (TypeError, ValueError):
            return False
        if a != a or b != b:
            return a != a and b != b
        return math.isclose(a, b, rel_tol=1e-9, abs_tol=1e-9)
    na, nb = isnan(a), isnan(b)
    if na is False and nb is False:
        return a == b
    return Or(And(na, nb), And(Not(na), Not(nb), a == b))


def same_value(a, b):
    """Structural equality of two scalars of the code under test (None, str, numbers, NaN)."""
    if a is None or b is None:
        return a is None and b is None
    if isinstance(a, str) or isinstance(b, str):
        return isinstance(a, str) and isinstance(b, str) and a == b
    if isinstance(a, (float, SymFloat, SymFP)) or isinstance(b, (float, SymFloat, SymFP)) \
            or type(a).__name__ == 'float64' or type(b).__name__ == 'float64':
        return same_float(a, b)
    r = (a == b)
    if isinstance(r, SymBool):
        return r
    return bool(r)
