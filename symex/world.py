"""The two worlds.

enter_shim(src): replaces numpy / pandas / sklearn / statsmodels in sys.modules by the models,
imports the unmodified ampycloud package from `src`, and shadows a few builtins in the globals
of every ampycloud module (globals shadow builtins; the source is not touched).

enter_real(src): imports ampycloud from `src` with the real libraries.
"""
import sys, os, builtins, logging, warnings, hashlib

WORLD = None
SRC = None


def _purge():
    for k in [k for k in sys.modules if k == 'ampycloud' or k.startswith('ampycloud.')]:
        del sys.modules[k]


def enter_real(src='/repo/src'):
    global WORLD, SRC
    if WORLD is not None:
        assert WORLD == 'real' and SRC == src
        return sys.modules['ampycloud']
    sys.path.insert(0, src)
    import ampycloud
    assert os.path.realpath(ampycloud.__file__).startswith(os.path.realpath(src)), ampycloud.__file__
    logging.disable(logging.CRITICAL)
    WORLD, SRC = 'real', src
    return ampycloud


def enter_shim(src='/repo/src', matplotlib=False):
    global WORLD, SRC
    if WORLD is not None:
        assert WORLD == 'shim' and SRC == src
        return sys.modules['ampycloud']
    for m in ('numpy', 'pandas', 'sklearn', 'statsmodels', 'scipy', 'matplotlib'):
        assert m not in sys.modules, 'real %s already imported in the shim world' % m
    from models import npmodel, pdmodel, stubs
    npmodel.install()
    pdmodel.install()
    stubs.install()
    if matplotlib:
        from models import mplmodel
        mplmodel.install()
    sys.path.insert(0, src)
    logging.disable(logging.CRITICAL)
    import ampycloud
    assert os.path.realpath(ampycloud.__file__).startswith(os.path.realpath(src)), ampycloud.__file__
    _shadow_builtins()
    WORLD, SRC = 'shim', src
    return ampycloud


def _shadow_builtins():
    from symex.core import SymInt, SymFloat, SymFP, SymFPInt, SymBool, ShimGap
    from models import npmodel

    class _IntMeta(type):
        # the stand-in compares equal to the builtin it stands for (dtype requirement tables are compared with ==)
        def __eq__(cls, o): return o is cls or o is builtins.int
        def __ne__(cls, o): return not (o is cls or o is builtins.int)
        def __hash__(cls): return hash(builtins.int)

        def __instancecheck__(cls, v):
            return builtins.isinstance(v, (builtins.int, SymInt, SymFPInt))

        def __call__(cls, v=0, *a):
            if builtins.isinstance(v, (SymInt, SymFPInt)):
                return v
            if builtins.isinstance(v, (SymFloat, SymFP)):
                return npmodel.f_cast(v, builtins.int)
            if builtins.isinstance(v, SymBool):
                return v.as_int()
            if builtins.isinstance(v, npmodel.ndarray):
                return npmodel.f_cast(v.item(), builtins.int)
            return builtins.int(v, *a)

    class int_(metaclass=_IntMeta):
        pass

    class _FloatMeta(type):
        def __eq__(cls, o): return o is cls or o is builtins.float
        def __ne__(cls, o): return not (o is cls or o is builtins.float)
        def __hash__(cls): return hash(builtins.float)

        def __instancecheck__(cls, v):
            return builtins.isinstance(v, (builtins.float, SymFloat, SymFP)) and not builtins.isinstance(v, SymFPInt)

        def __call__(cls, v=0.0):
            if builtins.isinstance(v, SymFPInt):
                return SymFP(v.e)
            if builtins.isinstance(v, (SymFloat, SymFP)):
                return v
            if builtins.isinstance(v, (SymInt, SymBool)):
                return SymFloat.of(v)
            return builtins.float(v)

    class float_(metaclass=_FloatMeta):
        pass

    def len_(x):
        return builtins.len(x)

    def abs_(x):
        return builtins.abs(x)

    def max_(*a, **k):
        if builtins.len(a) == 1:
            a = builtins.list(a[0])
        if k:
            raise ShimGap('max with keywords')
        if not a:
            raise ValueError('max() iterable argument is empty')
        m = a[0]
        for x in a[1:]:
            m = npmodel._max2(m, x)
        return m

    def min_(*a, **k):
        if builtins.len(a) == 1:
            a = builtins.list(a[0])
        if k:
            raise ShimGap('min with keywords')
        if not a:
            raise ValueError('min() iterable argument is empty')
        m = a[0]
        for x in a[1:]:
            m = npmodel._min2(m, x)
        return m

    def round_(x, nd=None):
        if builtins.isinstance(x, (SymFloat, SymFP)):
            if nd is not None:
                raise ShimGap('round(x, ndigits) on a symbolic float')
            return npmodel.f_cast(npmodel._round(x), builtins.int)
        return builtins.round(x) if nd is None else builtins.round(x, nd)

    def sum_(it, start=0):
        t = start
        for x in it:
            t = t + x
        return t

    for name, mod in list(sys.modules.items()):
        if (name == 'ampycloud' or name.startswith('ampycloud.')) and mod is not None:
            mod.int = int_
            mod.float = float_
            # module-level tables built at import time hold the real builtins; code that tests `entry is int`
            # must see the very object the name `int` now denotes in that module
            for k, v in list(vars(mod).items()):
                if builtins.isinstance(v, dict) and k.isupper():
                    for kk, vv in list(v.items()):
                        if vv is builtins.int:
                            v[kk] = int_
                        elif vv is builtins.float:
                            v[kk] = float_
            mod.max = max_
            mod.min = min_
            mod.round = round_
            mod.sum = sum_


def source_digest(src=None):
    """SHA-1 over the python files of the package under test (evidence + caches)."""
    src = src or SRC or '/repo/src'
    h = hashlib.sha1()
    files = {}
    for root, _, fs in sorted(os.walk(os.path.join(src, 'ampycloud'))):
        for f in sorted(fs):
            if f.endswith(('.py', '.yml')):
                p = os.path.join(root, f)
                d = hashlib.sha1(open(p, 'rb').read()).hexdigest()
                files[os.path.relpath(p, src)] = d
                h.update(p.encode() + d.encode())
    return h.hexdigest(), files
