"""Real world: run ampycloud.run on reference scenes with recorders around the three numerical
procedures; dump inputs, every call's answer and all results as JSON (model validation)."""
import sys, json, math, warnings, os
warnings.simplefilter('ignore')
sys.path.insert(0, os.path.dirname(os.path.dirname(os.path.abspath(__file__))))
from symex import world
SRC = sys.argv[1]
ampycloud = world.enter_real(SRC)
import numpy as np, pandas as pd
from ampycloud import cluster, layer, fluffer
LOG = []


class RecAgg:
    def __init__(self, **kw):
        self.inner = _Agg(**kw)

    def fit(self, X):
        self.inner.fit(X)
        self.n_clusters_ = int(self.inner.n_clusters_)
        self.labels_ = self.inner.labels_
        LOG.append({'kind': 'agg', 'n': int(len(X)), 'labels': [int(v) for v in self.labels_], 'k': self.n_clusters_})
        return self


_Agg = cluster.AgglomerativeClustering
cluster.AgglomerativeClustering = RecAgg


class RecGMM:
    def __init__(self, n, **kw):
        self.n = int(n)
        self.inner = _GMM(n, **kw)

    def fit(self, X):
        self.inner.fit(X)
        return self

    def predict(self, X):
        r = self.inner.predict(X)
        LOG.append({'kind': 'gmm_predict', 'n': self.n, 'labels': [int(v) for v in r],
                    'x': [float(v) for v in np.asarray(X).reshape(-1)]})
        return r

    def bic(self, X):
        r = float(self.inner.bic(X))
        LOG.append({'kind': 'gmm_bic', 'n': self.n, 'val': r})
        return r

    def aic(self, X):
        r = float(self.inner.aic(X))
        LOG.append({'kind': 'gmm_aic', 'n': self.n, 'val': r})
        return r


_GMM = layer.GaussianMixture
layer.GaussianMixture = RecGMM
_low = fluffer.sm.nonparametric.lowess


def reclow(y, x, **kw):
    r = _low(y, x, **kw)
    LOG.append({'kind': 'lowess', 'n': int(len(y)), 'out': [[float(a), float(b)] for a, b in r]})
    return r


fluffer.sm.nonparametric.lowess = reclow


def enc(v):
    if isinstance(v, (np.floating, float)):
        return None if math.isnan(v) else float(v)
    if isinstance(v, (np.bool_, bool)):
        return bool(v)
    if isinstance(v, (np.integer, int)):
        return int(v)
    if v is None or v is pd.NA:
        return None
    return str(v)


def frame(df):
    return None if df is None else {c: [enc(x) for x in df[c].tolist()] for c in df.columns}


def scene(data, prms):
    del LOG[:]
    res = {'input': frame(data), 'prms': prms}
    try:
        ch = ampycloud.run(data, prms=prms)
        res.update(exc=None, msg=ch.metar_msg(), msgs={w: ch.metar_msg(w) for w in ('slices', 'groups', 'layers')},
                   data=frame(ch.data), slices=frame(ch.slices), groups=frame(ch.groups), layers=frame(ch.layers))
    except Exception as e:
        res.update(exc=type(e).__name__)
    res['log'] = list(LOG)
    return res


def main(out, which):
    import glob, pickle
    from ampycloud.utils import mocker
    scenes = []
    files = sorted(glob.glob(os.path.join(os.path.dirname(SRC.rstrip('/')), 'test', 'ampycloud', 'ref_data', '*')))
    if not files:
        files = sorted(glob.glob('/repo/test/ampycloud/ref_data/*'))
    for f in files:
        if f.endswith('.csv'):
            d = pd.read_csv(f)
        else:
            try:
                d = pd.read_pickle(f)
            except Exception:
                continue
        d['ceilo'] = d['ceilo'].astype(pd.StringDtype())
        prms = {'MSA': 10000} if 'MSA' in os.path.basename(f) else {}
        scenes.append((os.path.basename(f), d, prms))
    demo = mocker.canonical_demo_data()
    scenes.append(('canonical_demo', demo, {}))
    scenes.append(('canonical_demo_msa', demo, {'MSA': 3000, 'MSA_HIT_BUFFER': 500}))
    scenes.append(('canonical_demo_excl', demo, {'EXCLUDE_FOR_BASE_HEIGHT_CALC': ['1'], 'BASE_LVL_LOOKBACK_PERC': 50,
                                                 'BASE_LVL_HEIGHT_PERC': 20}))
    if which != 'all':
        idx = [int(x) for x in which.split(',')]
        scenes = [scenes[i % len(scenes)] for i in idx]
    res = []
    for name, d, prms in scenes:
        r = scene(d, prms)
        r['name'] = name
        res.append(r)
    json.dump(res, open(out, 'w'))
    print('recorded', len(res), 'scenes')


if __name__ == '__main__':
    main(sys.argv[2], sys.argv[3] if len(sys.argv) > 3 else 'all')
