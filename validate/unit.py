"""Differential unit tests of the numpy/pandas models against the real libraries on boundary inputs.
Runs the same small programs in both worlds (two subprocesses) and compares the printed results.
  .venv/bin/python validate/unit.py          -> exit 0 if identical
"""
import sys, os, json, subprocess, math
ROOT = os.path.dirname(os.path.dirname(os.path.abspath(__file__)))
NAN = float('nan')


def enc(v):
    if hasattr(v, 'tolist'):
        v = v.tolist()
    if hasattr(v, '_is_series') or type(v).__name__ == 'Series':
        v = v.to_list()
    if isinstance(v, (list, tuple)):
        return [enc(x) for x in v]
    if isinstance(v, float) or type(v).__name__ in ('float64', 'float32'):
        v = float(v)
        return 'nan' if v != v else round(v, 9)
    if type(v).__name__ in ('int64', 'int32', 'bool_'):
        return v.item()
    if isinstance(v, (int, bool, str)) or v is None:
        return v
    return repr(v)


def cases(np, pd):
    out = {}

    def case(name, f):
        try:
            out[name] = enc(f())
        except Exception as e:  # noqa: BLE001
            out[name] = 'EXC:' + type(e).__name__
    a = [3.0, 1.0, 2.0, 2.0, 5.0]
    for q in (0, 5, 25, 50, 95, 100, 33.3):
        case('percentile q=%s' % q, lambda: np.percentile(np.array(a), q))
    case('percentile single', lambda: np.percentile(np.array([7.0]), 40))
    case('percentile empty', lambda: np.percentile(np.array([]), 40))
    case('percentile nan', lambda: np.percentile(np.array([1.0, NAN]), 40))
    case('round half even', lambda: np.round(np.array([0.5, 1.5, 2.5, -0.5, 2.4999])))
    case('floor/ceil', lambda: [np.floor(np.array([-0.5, 0.5, 2.0])), np.ceil(np.array([-0.5, 0.5, 2.0]))])
    case('searchsorted', lambda: [int(np.searchsorted([10000], x)) for x in (9999.0, 10000.0, 10001.0)])
    case('searchsorted empty', lambda: int(np.searchsorted([], 5.0)))
    case('unique nan', lambda: np.unique(np.array([2.0, NAN, 1.0, 2.0, NAN])))
    case('argsort ties', lambda: np.argsort(np.array([2.0, 1.0, 2.0, 1.0])))
    case('diff', lambda: np.diff(np.array([1.0, 4.0, 9.0])))
    case('nanmax/nanmin', lambda: [np.nanmax(np.array([1.0, NAN, 3.0])), np.nanmin(np.array([1.0, NAN, 3.0]))])
    case('min with nan', lambda: np.min(np.array([1.0, NAN])))
    case('min empty', lambda: np.min(np.array([])))
    case('any/all', lambda: [bool(np.any([False, False])), bool(np.all([])), bool(np.any([]))])
    case('isin', lambda: np.isin(np.array([1.0, 2.0]), np.array([2.0, 3.0])))
    case('delete/where', lambda: np.delete(np.array([-1, 0, 2]), np.where(np.array([-1, 0, 2]) == -1)))
    case('masked assign', lambda: (lambda o: (o.__setitem__(o > 1, 0), o)[1])(np.array([0.5, 1.5, 2.5])))
    case('linspace int', lambda: np.linspace(1, 3, 3, dtype=int))
    case('astype int', lambda: np.array([1.9, -1.9]).astype(int))
    case('bool*bool', lambda: np.array([True, False]) * np.array([True, True]))
    case('x/0', lambda: np.array([1.0, 0.0, -1.0]) / np.array([0.0, 0.0, 0.0]))
    df = pd.DataFrame({'a': [1.0, 2.0, 2.0, NAN], 'b': ['x', 'y', 'y', 'z']}, index=[5, 5, 7, 9])
    case('duplicated', lambda: df.duplicated())
    case('loc label list repeated', lambda: df.loc[[5], 'a'])
    case('drop repeated label', lambda: df.drop([5])['a'])
    case('bool mask other order', lambda: pd.DataFrame({'a': [1.0, 2.0]}, index=[1, 0])[pd.Series([True, False], index=[0, 1])]['a'])
    case('mask align dup labels', lambda: df[pd.Series([True, False, True, False], index=[5, 7, 9, 5])]['a'])
    case('assign series onto dup index', lambda: (lambda d: (d.__setitem__('c', pd.Series([10.0, 20.0, 30.0, 40.0])), d['c'])[1])(df.copy()))
    case('assign series dup source', lambda: (lambda d: (d.__setitem__('c', pd.Series([1.0, 2.0], index=[5, 5])), d['c'])[1])(pd.DataFrame({'a': [1.0]}, index=[5])))
    case('mode ties', lambda: pd.Series([3, 1, 3, 1, 2]).mode())
    case('mode empty', lambda: len(pd.Series([], dtype=float).mode()))
    case('diff empty', lambda: len(pd.Series([], dtype=float).diff()))
    case('diff', lambda: pd.Series([1.0, 4.0]).diff())
    case('fillna', lambda: (pd.Series([1.0, 4.0]).diff() < 2).fillna(False))
    case('std one', lambda: pd.Series([1.0]).std())
    case('std', lambda: pd.Series([1.0, 2.0, 4.0]).std())
    case('min skipna', lambda: pd.Series([NAN, 2.0]).min(skipna=True))
    case('sort_values ties stable (small)', lambda: pd.DataFrame({'k': [2.0, 1.0, 2.0, 1.0], 'v': [0, 1, 2, 3]}).sort_values('k')['v'])
    case('sort_values two keys', lambda: pd.DataFrame({'k': [2.0, 1.0, 2.0, 1.0], 's': ['b', 'b', 'a', 'a'], 'v': [0, 1, 2, 3]}).sort_values(['k', 's'])['v'])
    case('merge inner', lambda: len(pd.DataFrame({'dt': [1.0, 1.0], 'c': ['a', 'b']}).merge(pd.DataFrame({'dt': [1.0, 1.0], 'c': ['a', 'a']}), how='inner', on=['dt', 'c'])))
    case('astype bool nan', lambda: pd.DataFrame(index=range(2), columns=['x'])['x'].astype(bool))
    case('isin', lambda: pd.Series([1, 2, 3]).isin([2]))
    case('index union', lambda: pd.Index([3, 1]).union(pd.Index([2, 1])).tolist())
    case('drop_duplicates', lambda: pd.DataFrame({'a': [1, 1, 2], 'b': [1, 1, 3]}).drop_duplicates()['a'])
    case('iloc oob', lambda: pd.Series([1]).iloc[3])
    case('at new row', lambda: pd.DataFrame({'a': [1.0]}).at[0, 'a'])
    case('reset_index', lambda: df.reset_index(drop=True).index.tolist())
    case('concat index', lambda: pd.concat([pd.DataFrame({'a': [1]}), pd.DataFrame({'a': [2]})]).index.tolist())
    case('flatnonzero', lambda: np.flatnonzero(np.array([False, True, True])))
    case('cumsum', lambda: np.cumsum(np.array([1.0, 2.0, 4.0])))
    case('argmax ties', lambda: int(np.argmax(np.array([1.0, 3.0, 3.0]))))
    case('nanmean', lambda: np.nanmean(np.array([1.0, NAN, 3.0])))
    case('median', lambda: [np.median(np.array([3.0, 1.0, 2.0])), np.median(np.array([3.0, 1.0, 2.0, 10.0]))])
    case('count_nonzero', lambda: int(np.count_nonzero(np.array([True, False, True]))))
    case('logical_and/not', lambda: [np.logical_and(np.array([True, False]), np.array([True, True])), np.logical_not(np.array([True, False]))])
    case('append', lambda: np.append(np.array([1.0]), [2.0, 3.0]))
    case('head/tail', lambda: [pd.Series([1, 2, 3]).head(2), pd.Series([1, 2, 3]).tail(2), pd.Series([1, 2, 3]).tail(0)])
    case('idxmax/idxmin', lambda: [pd.Series([1.0, 5.0, 2.0], index=[7, 8, 9]).idxmax(), pd.Series([1.0, 5.0, 2.0], index=[7, 8, 9]).idxmin()])
    case('nlargest', lambda: pd.Series([1.0, 5.0, 2.0]).nlargest(2))
    case('series median/cumsum', lambda: [pd.Series([1.0, 5.0, 2.0]).median(), pd.Series([1.0, 5.0, 2.0]).cumsum()])
    case('iterrows', lambda: [[l, r['a']] for l, r in pd.DataFrame({'a': [1.0, 2.0]}, index=[4, 6]).iterrows()])
    case('itertuples', lambda: [list(t) for t in pd.DataFrame({'a': [1.0, 2.0], 'b': ['x', 'y']}, index=[4, 6]).itertuples()])
    case('between', lambda: pd.Series([1.0, 5.0, 2.0]).between(2, 5))
    case('value_counts > 1', lambda: sorted((pd.DataFrame({'a': [1.0, 1.0, NAN, NAN, 2.0], 'b': [1, 1, 0, 0, 3]}).value_counts(sort=False) > 1).tolist()))
    case('loc column slice', lambda: list(pd.DataFrame({'t': [1], 'dt': [2.0], 'x': [3], 'height': [4.0]}).loc[[True], 'dt':'height'].columns))
    case('filter regex + to_numpy(float)', lambda: pd.DataFrame({'x_id': [1, 2], 'dt': [0.5, 1.5], 'y_id': [3, -1]}).filter(regex='_id$').to_numpy(dtype=float))
    empty = lambda: pd.DataFrame({'a': [1.0]}).drop([0])   # noqa: E731
    case('empty frame: loc new column scalar', lambda: (lambda d: (d.loc.__setitem__((slice(None), 'new'), -1), list(d.columns))[1])(empty()))
    case('empty frame: loc existing column scalar', lambda: (lambda d: (d.loc.__setitem__((slice(None), 'a'), -1), list(d.columns), len(d))[1:])(empty()))
    case('empty frame: setitem scalar', lambda: (lambda d: (d.__setitem__('new', -1), list(d.columns), len(d))[1:])(empty()))
    case('empty frame: loc mask list-col scalar', lambda: (lambda d: (d.loc.__setitem__((d['a'] > 0, ['new']), 1), list(d.columns))[1])(empty()))
    case('empty table: loc new column scalar', lambda: (lambda d: (d.loc.__setitem__((slice(None), 'new'), 5), len(d))[1])(pd.DataFrame(index=range(0), columns=['x'])))
    case('empty table: loc column empty list', lambda: (lambda d: (d.loc.__setitem__((slice(None), 'x'), []), len(d))[1])(pd.DataFrame(index=range(0), columns=['x'])))
    return out


def main():
    if len(sys.argv) > 1 and sys.argv[1] in ('shim', 'real'):
        sys.path.insert(0, ROOT)
        import warnings
        warnings.simplefilter('ignore')
        from symex import world
        if sys.argv[1] == 'shim':
            world.enter_shim('/repo/src')
            from symex import core
            core.set_engine(core.ConcreteEngine({}))
        import numpy, pandas
        print('CASES ' + json.dumps(cases(numpy, pandas)))
        return 0
    res = {}
    for w in ('shim', 'real'):
        r = subprocess.run([sys.executable, os.path.abspath(__file__), w], capture_output=True, text=True)
        line = [l for l in r.stdout.splitlines() if l.startswith('CASES ')]
        if not line:
            print('unit: %s world failed: %s' % (w, r.stderr[-800:]))
            return 1
        res[w] = json.loads(line[0][6:])
    bad = [k for k in res['real'] if res['real'][k] != res['shim'].get(k)]
    for k in bad:
        print('UNIT DIFF %s: real %r model %r' % (k, res['real'][k], res['shim'].get(k)))
    print('unit: %d cases, %d differ' % (len(res['real']), len(bad)))
    return 1 if bad else 0


if __name__ == '__main__':
    sys.exit(main())
