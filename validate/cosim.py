"""Shim world, concrete mode: run the same source on the recorded scenes with the library models
and the stubs replaying the recorded answers; every table must be identical."""
import sys, json, os, warnings, math
warnings.simplefilter('ignore')
sys.path.insert(0, os.path.dirname(os.path.dirname(os.path.abspath(__file__))))
from symex import world, core
SRC = sys.argv[1]
ampycloud = world.enter_shim(SRC)
from models import pdmodel, npmodel, stubs


def cmpframe(name, mine, ref):
    bad = []
    if (mine is None) != (ref is None):
        return ['%s None mismatch' % name]
    if mine is None:
        return []
    if list(mine.cols) != list(ref):
        bad.append('%s columns %r vs %r' % (name, list(mine.cols), list(ref)))
    for c in ref:
        if c not in mine.cols:
            bad.append('%s.%s missing' % (name, c))
            continue
        a, b = mine.cols[c], ref[c]
        if len(a) != len(b):
            bad.append('%s.%s len %d vs %d' % (name, c, len(a), len(b)))
            continue
        for i, (x, y) in enumerate(zip(a, b)):
            if isinstance(x, float) and x != x:
                x = None
            if isinstance(y, float) or isinstance(x, float):
                if x is None or y is None:
                    ok = (x is None and y is None)
                else:
                    tol = 1e-5 if c == 'fluffiness' else 1e-9
                    ok = abs(float(x) - float(y)) <= tol * max(1, abs(float(y)))
            elif isinstance(y, bool):
                ok = (bool(x) == y)
            else:
                ok = (str(x) == str(y))
            if not ok:
                bad.append('%s.%s[%d] %r vs %r' % (name, c, i, x, y))
                break
    return bad


def run_scene(rec):
    stubs.MODE = 'scripted'
    stubs.SCRIPT[:] = list(rec['log'])
    core.set_engine(core.ConcreteEngine({}))
    inp = rec['input']
    conv = {'ceilo': lambda x: x, 'dt': float, 'height': lambda x: float('nan') if x is None else float(x),
            'type': int}
    df = pdmodel.DataFrame({c: [conv[c](x) for x in inp[c]] for c in inp})
    df.dtypes = {'ceilo': pdmodel.StringDtype(), 'dt': float, 'height': float, 'type': int}
    try:
        ch = ampycloud.run(df, prms=rec['prms'])
        exc = None
    except core.EngineSignal as e:
        return ['GAP %s %s' % (type(e).__name__, e)]
    except Exception as e:
        import traceback
        traceback.print_exc()
        exc = type(e).__name__
    bad = []
    if exc != rec['exc']:
        bad.append('exception %r vs %r' % (exc, rec['exc']))
    elif exc is None:
        for w in ('slices', 'groups', 'layers'):
            if ch.metar_msg(w) != rec['msgs'][w]:
                bad.append('msg(%s) %r vs %r' % (w, ch.metar_msg(w), rec['msgs'][w]))
        bad += cmpframe('data', ch.data, rec['data']) + cmpframe('slices', ch.slices, rec['slices']) + \
            cmpframe('groups', ch.groups, rec['groups']) + cmpframe('layers', ch.layers, rec['layers'])
        if stubs.SCRIPT:
            bad.append('%d recorded library calls not consumed' % len(stubs.SCRIPT))
    return bad


def main(path):
    recs = json.load(open(path))
    nbad = 0
    for rec in recs:
        bad = run_scene(rec)
        print('COSIM', 'OK  ' if not bad else 'DIFF', rec['name'], rec.get('msg'), bad[:4])
        nbad += bool(bad)
    print('cosim: %d scenes, %d differ' % (len(recs), nbad))
    return 1 if nbad else 0


if __name__ == '__main__':
    sys.exit(main(sys.argv[2]))
