"""Regenerates /verif/MANIFEST.json from the table below (kept valid at all times)."""
import json, os, importlib, sys
ROOT = os.path.dirname(os.path.dirname(os.path.abspath(__file__)))
sys.path.insert(0, ROOT)
PROPS = [json.loads(l)['id'] for l in open(os.path.join(ROOT, 'properties.jsonl'))]

TRUST = ('trusted base: z3 5.1.0; the ~1000-line executor (symex/core.py; decision tree explored completely by '
         'construction, cover goals against vacuity); the numpy/pandas models (models/*.py), checked on every run '
         'by co-simulation against the real libraries on the repository\'s reference scenes; every counterexample '
         'is replayed against the real code with the real libraries before it is reported')

CLAIMED = {
    'C17': dict(text='Bounded symbolic execution of the real icao.significant_cloud: for every list of (unbounded) '
                     'integers up to the stated length the solver shows, path by path, that the flags equal the '
                     '1-3-5 fold of the statement, that prefixes are independent of what follows, and that calls '
                     'do not influence each other. Exhaustive within the length bound; nothing claimed beyond it.',
                ref='DESIGN.md 4/C17', note=TRUST + '; no library model involved for this property'),
    'C18': dict(text='Bounded symbolic execution of the real wmo.perc2okta/okta2code/height2code. Heights: every '
                     'binary64 in [0,1e5) in exact IEEE arithmetic (QF_FP). Percentages: all integers n<=m without '
                     'bound in real-number semantics, and n<=m<=8 (quick) / 64 (thorough) in exact binary64. '
                     'Okta codes: all ints -16..25.',
                ref='DESIGN.md 4/C18', note=TRUST + '; numpy model (floor/ceil/round/masked assignment) in the loop'),
    'C19': dict(text='Bounded symbolic execution of the real scaler module (apply_scaling, convert_kwargs, the three '
                     'scalings and their inverses) over NaN-extended reals: for every array up to the stated length, every '
                     'NaN pattern and every admissible parameter value the solver shows order preservation, the do/undo '
                     'identity, the [0,1]/minimum-range clauses, continuity at each step and NaN transparency.',
                ref='DESIGN.md 4/C19', note=TRUST + '; real-number semantics (binary64 rounding of the round trip is outside the claim)'),
    'C01': dict(text='Bounded symbolic execution of the real CeiloChunk.metar_msg on directly constructed chunks whose '
                     'table rows (okta, base) are symbolic and whose significant/code columns are filled by the real '
                     'icao/wmo functions: for every table up to the row bound, every MSA and flag value the solver shows '
                     'the grammar, the ordering, the 1-3-5 ranks and the exclusion of zero-okta and at/above-MSA rows; plus the whole '
                     'metarize() (sort order, significance, codes, with an MSA set) and the whole chain on small tables, each message against its table.',
                ref='DESIGN.md 4/C01', note=TRUST + '; message text handled as fragment strings (formatted symbolic integers)'),
    'C02': dict(text='Same exploration shape as C01 with the C02 clause set (first group = lowest reportable layer, '
                     'ceiling among the groups, NCD/NSC exactly as stated), plus the flag clause of the MSA-cropping harness and the whole chain on small '
                     'tables with symbolic MSA / buffer / threshold (message against table and real flag).',
                ref='DESIGN.md 4/C02', note=TRUST),
    'C07': dict(text='Bounded symbolic execution of the real AbstractChunk._cleanup_pdf on symbolic hit tables: row-by-row '
                     'oracle (kept / turned into a non-detection / dropped), flag <=> count above > MAX_HITS_OKTA0, and two '
                     '2-run comparisons (other heights above the limit; non-detections instead) decided by the solver on every path.',
                ref='DESIGN.md 4/C07', note=TRUST + '; real-number semantics of MSA+buffer'),
    'C03': dict(text='Bounded symbolic execution of the real cloud-amount step of metarize() (_setup_sligrolay_pdf, '
                     '_calculate_cloud_amount, max_hits_per_layer, ceilos, perc2okta, okta2code) on symbolic hit tables '
                     'with a symbolic assignment of hits to sets: counts against a pairwise z3 oracle of distinct '
                     '(ceilometer,time) measurements, percentage, okta with both buffers (symbolic; and concrete, so that the arithmetic on the counts is native binary64), monotonicity, code prefix.',
                ref='DESIGN.md 4/C03', note=TRUST + '; large totals only through C18 (perc2okta for all n<=m)'),
    'C04': dict(text='Bounded symbolic execution of the real base-height and statistics steps of metarize() against an '
                     'independently written percentile/look-back/exclusion oracle, the whole metarize() for the sort order, '
                     'the coded floor and (with an exclusion list) the same statistics / percentile clauses on the finished table, and height2code on every binary64 in [0,1e5). Fluffiness is not claimed.',
                ref='DESIGN.md 4/C04', note=TRUST + '; real-number semantics for the percentile; LOWESS stubbed'),
    'C08': dict(text='Bounded symbolic execution of the whole chain (constructor, three stages, three messages) on every '
                     'accepted table up to the row bound and over parameter families with symbolic leaves, with '
                     'non-deterministic stubs for scikit-learn/statsmodels that raise like the libraries outside their '
                     'preconditions; plus constructed post-slicing states (bundle shapes up to 4 hits). Decides: ampycloud never '
                     'calls a library outside its precondition and never trips over its own indexing. Not decided: failures '
                     'inside the libraries within their preconditions.',
                ref='DESIGN.md 4/C08', note=TRUST + '; library contracts as listed in the evidence assumptions'),
    'C15': dict(text='Bounded symbolic execution of the real utils.check_data_consistency on every frame up to the row bound '
                     '(duplicates, coincidences, anomalies, extra column, repeated index labels, two dtype variants all in the '
                     'space) against the refusal condition written as a z3 formula; acceptance clauses (new frame, columns, '
                     'dtypes, values, argument untouched, idempotence, warnings).',
                ref='DESIGN.md 4/C15', note=TRUST + '; only three dtype coercions are modelled (integral float, int time stamps, int32 hit types)'),
    'C05': dict(text='Bounded symbolic execution of the three stages: whole chain on accepted tables, constructed '
                     'post-slicing states (bundle shapes), the MSA cropping, metarize() on arbitrary assignments, and the '
                     'thirty-hit construction that engages the mixture model (every labelling function and score, second '
                     'group with an arbitrary id value = row-count abstraction). Partition invariants decided per path.',
                ref='DESIGN.md 4/C05, 2.6', note=TRUST + '; stub contracts for clustering / mixture / LOWESS as listed in the evidence; '
                'counterexamples that need particular library answers are replayed with those answers scripted'),
    'C06': dict(text='Bounded symbolic execution of the group merge loop and report-time bases on constructed post-slicing '
                     'states with symbolic two-bin separations, percentile, exclusion and fall-back threshold, of the whole chain '
                     'on small tables, and of find_layers/ncomp_from_gmm on the thirty-hit construction (ascending / descending rows, '
                     'look-back 20/100): reported bases at least the configured separation apart.',
                ref='DESIGN.md 4/C06', note=TRUST + '; real-number semantics; stable sort on equal time stamps'),
    'C10': dict(text='2-run bounded symbolic execution of the whole chain (real constructor with the consistency check and the MSA '
                     'cropping): a symbolic accepted table plainly indexed vs the same values under arbitrary (repeated) symbolic '
                     'index labels, an extra column, permuted columns and three dtype variants; equality of all results decided by z3.',
                ref='DESIGN.md 4/C10', note=TRUST + '; label semantics of the pandas model (repeated labels raise / select as in pandas)'),
    'C14': dict(text='Inductive step: from each of the four canonical states (reached by the real stages, library answers stubbed and '
                     'memoised) each of the ten operations once; z3 decides per path that the call raises AmpycloudError leaving '
                     'everything unchanged or leaves a canonical state of the same inputs. Call sequences of any length follow by induction; '
                     'rows are bounded. Known finding D7 (column isolated after re-slicing) is listed, not suppressed beyond that column.',
                ref='DESIGN.md 4/C14', note=TRUST),
    'C16': dict(text='2-run bounded symbolic execution of the whole chain under two namings of the ceilometers (swap, names that sort '
                     'differently, prefix names), exclusion list mapped: equality of all results decided by z3.',
                ref='DESIGN.md 4/C16', note=TRUST + '; names are concrete strings, their assignment to hits is symbolic'),
    'C09': dict(text='Claimed in part. Symbolic execution of utils.tmp_seed and canonical_demo_data against numpy.random modelled as an '
                     'explicit state cell with a symbolic 5-field legacy state (restored whether the body returns or raises); '
                     'ncomp_from_gmm with any seed >= 0 hands exactly that seed to every mixture model; the chain never touches the '
                     'global generator; two consecutive ncomp_from_gmm calls hand equal generator states to their mixture models and agree; 2-run history independence. Not claimed: bit-identity across processes, hash seeds, builds.',
                ref='DESIGN.md 4/C09', note=TRUST + '; determinism of the three numerical procedures is assumed (memoised stubs)'),
    'C11': dict(text='Symbolic execution of the constructor (+ chain) with symbolic per-call dictionaries (presence bit and value per key '
                     'at depths 1-3, unknown keys) over a global with symbolic leaves: caller frame / caller dict / global unchanged, '
                     'snapshot = effective values, no shared containers (heap walk on every path), no leak in either direction.',
                ref='DESIGN.md 4/C11', note=TRUST),
    'C12': dict(text='Claimed in part. 2-run: per-call dictionary over a poisoned global vs edited global (same chunk parameters, tables, '
                     'messages; any stray read of the live global makes the results mention a poisoned variable); unknown keys warn once, '
                     'add nothing; reset_prms after nested in-place edits of every leaf for every choice of names. YAML route only on concrete files.',
                ref='DESIGN.md 4/C12', note=TRUST + '; ruamel.yaml runs for real on concrete files'),
    'C13': dict(text='Claimed at stage granularity. Every interleaving (70) of the 4+4 stage calls of two chunks with symbolic data and '
                     'per-call parameters: each chunk ends exactly as when processed alone; module/class-level mutable state untouched. '
                     'Thread pre-emption inside a stage is not claimed.',
                ref='DESIGN.md 4/C13', note=TRUST),
}
NA = {'C20': "the property is about matplotlib's own state and the file system (global rcParams afterwards, open figures, files on disk, "
             "'raises nothing' for a call chain that runs almost entirely inside matplotlib and numpy string arrays): none of that is ampycloud "
             "code that can be executed symbolically, and a recording stand-in for matplotlib would decide a different statement; running the "
             "real plotting code on concrete chunks would be testing, not solver-based checking (DESIGN.md section 4/C20)"}


def main():
    checks = []
    for pid in PROPS:
        if pid not in CLAIMED:
            continue
        c = CLAIMED[pid]
        mod = importlib.import_module('harness.' + pid.lower())
        checks.append({
            'property_id': pid,
            'quick_cmd': './vcheck %s --tier quick' % pid,
            'thorough_cmd': './vcheck %s --tier thorough' % pid,
            'evidence_file': 'evidence/%s.json' % pid,
            'replay_cmd_template': './vcheck %s --replay {path}' % pid,
            'engine': 'symex',
            'level_claimed': {'category': 'other', 'text': c['text'], 'design_ref': c['ref']},
            'level_note': c['note'],
            'technique': mod.SPEC['technique'],
        })
    na = [{'property_id': p, 'reason': NA.get(p, 'check not built yet (work in progress)')}
          for p in PROPS if p not in CLAIMED]
    m = {
        'version': 1,
        'setup_cmd': './setup.sh',
        'hooks': {'guard': 'METEOSWISS_AMPYCLOUD_VERIF',
                  'enable': 'none needed: the checks import the unmodified /repo/src against library models; no source hooks exist',
                  'baseline_off_cmd': 'cd /repo && /venv/bin/python -m pytest -ra -q -p no:cacheprovider --timeout=900 --continue-on-collection-errors',
                  'source_commits': [], 'add_only': True},
        'engines': [{'name': 'symex', 'path': 'symex/core.py', 'serves_properties': sorted(CLAIMED),
                     'kind_free_text': 'operator-overloading symbolic executor on z3 (decision-prefix DFS, per-path '
                                       'unsat of the negated property) running the real /repo/src against pure-Python '
                                       'models of numpy/pandas and non-deterministic stubs of scikit-learn/statsmodels'}],
        'checks': checks,
        'notes': 'exit 2 = inconclusive (never a pass). Fixes of genuine defects of the pinned tree are the "fix:" '
                 'commits of /repo listed in known_findings.json.',
        'not_applicable': na,
    }
    json.dump(m, open(os.path.join(ROOT, 'MANIFEST.json'), 'w'), indent=1)
    import jsonschema
    jsonschema.validate(m, json.load(open('/root/.vp/MANIFEST.schema.json')))
    print('MANIFEST.json: %d checks, %d not applicable' % (len(checks), len(na)))


if __name__ == '__main__':
    main()
