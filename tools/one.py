"""Debug helper: explore one harness at one size in-process.  tools/one.py <module> <harness> "<size tuple>" <seconds>"""
import sys, time, os
sys.path.insert(0, os.path.dirname(os.path.dirname(os.path.abspath(__file__))))
import warnings; warnings.simplefilter('ignore')
from symex import world, core
world.enter_shim(os.environ.get('SRC', '/repo/src'))
from models import stubs
import importlib
mod = importlib.import_module('harness.' + sys.argv[1]); h = mod.get_harness(sys.argv[2]); size = eval(sys.argv[3])
eng = core.SymEngine(logic=h.logic); core.set_engine(eng)
def fn(e):
    stubs.reset_path(); return h.fn(e, *size)
t = time.time()
st = eng.explore(fn, deadline=time.time() + float(sys.argv[4]))
print(st, 'paths', eng.paths, 'aborted', eng.aborted, 'time %.1f' % (time.time() - t), 'frontier', len(eng.frontier), eng.stats())
for c in eng.cex[:1]:
    print('CEX', c['failed'], c['notes'], c['inputs'])
