#!/bin/sh
# selftest/all.sh <quick|thorough> [ids...]: run the checks one after the other on the unchanged tree; one line per check (id, exit, wall s, summary)
cd "$(dirname "$0")/.."
T=$1; shift
IDS=${*:-C01 C02 C03 C04 C05 C06 C07 C08 C09 C10 C11 C12 C13 C14 C15 C16 C17 C18 C19}
OUT=selftest/$T.tsv
: > $OUT
for id in $IDS; do
  s=$(date +%s)
  ./vcheck $id --tier $T --evidence /tmp/ev-$T-$id.json > /tmp/all-$T-$id.log 2>&1; rc=$?
  e=$(date +%s)
  printf "%s\t%s\t%s\t%s\n" "$id" "$rc" "$((e-s))" "$(grep -a " $T: " /tmp/all-$T-$id.log | tail -1 | cut -c1-160)" >> $OUT
  grep -a -E "^(INCONCLUSIVE|UNCONFIRMED|VIOLATION)" /tmp/all-$T-$id.log | head -3 | cut -c1-300 >> $OUT
done
cat $OUT
