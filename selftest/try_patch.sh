#!/bin/sh
# selftest/try_patch.sh <patch.diff> <ID> [vcheck args...]: run a check against a scratch copy of /repo/src with the patch applied
P=$(realpath "$1"); shift
D=$(mktemp -d /tmp/vscratch.XXXXXX)
mkdir -p $D && cp -r /repo/src $D/src && mkdir -p $D/test/ampycloud && cp -r /repo/test/ampycloud/ref_data $D/test/ampycloud/ 
( cd $D && patch -s -p1 < "$P" ) || { echo "patch failed"; rm -rf $D; exit 9; }
ID=$1; shift
/verif/vcheck $ID --src $D/src --evidence $D/ev.json "$@"
rc=$?
rm -rf $D
echo "exit=$rc"
exit $rc
