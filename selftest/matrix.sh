#!/bin/sh
# selftest/matrix.sh [out.tsv]: run, for every seeded change and every reverse patch of a fix, the quick check of the property it breaks
# against a scratch copy of /repo/src with the patch applied. Expected: exit 1 (VIOLATION). Writes one line per change.
cd "$(dirname "$0")/.."
OUT=${1:-selftest/matrix.tsv}
: > $OUT
run() { # name patch prop
  D=$(mktemp -d /tmp/vmatrix.XXXXXX)
  P=$(realpath "$2")
  cp -r /repo/src $D/src
  if ( cd $D && patch -s -p1 < "$P" ); then
    ./vcheck $3 --src $D/src --evidence $D/ev.json --no-validate > $D/log 2>&1; rc=$?
    why=$(grep -E "^(INCONCLUSIVE|UNCONFIRMED)" $D/log | head -1 | cut -c1-160)
    printf '%s\t%s\t%s\t%s\n' "$1" "$3" "$rc" "$why" >> $OUT
  else
    printf '%s\t%s\tpatch-failed\t\n' "$1" "$3" >> $OUT
  fi
  rm -rf $D
}
for d in seeded/C*; do
  n=$(basename $d); p=$(echo $n | cut -d- -f1)
  run $n $d/patch.diff $p
done
run revert-D1 selftest/mutants/revert-D1-index.patch C10
run revert-D2 selftest/mutants/revert-D2-regroup-guard.patch C14
run revert-D3 selftest/mutants/revert-D3-merge-exclusion.patch C06
run revert-D4 selftest/mutants/revert-D4-time-order.patch C06
run revert-D5 selftest/mutants/revert-D5-layer-ids.patch C05
run revert-D6 selftest/mutants/revert-D6-single-hit-bundle.patch C08
run revert-D9 selftest/mutants/revert-D9-empty-frame.patch C08
cat $OUT
