#!/bin/sh
# selftest/confirm_seeded.sh <srcdir> <ID> <k> <kout>: confirm a sub-agent's seeded change (<srcdir>/<ID>/<k>/{patch.diff,demo.py,notes.txt})
# in a scratch worktree of /repo HEAD and file it under /verif/seeded/<ID>-<kout>/
SRC=$1; ID=$2; K=$3; KOUT=${4:-$3}
SRCDIR=$SRC/$ID/$K
[ -f $SRCDIR/patch.diff ] || { echo "$ID/$K: no patch"; exit 0; }
WT=/tmp/confirm_wt_${ID}_$KOUT
git -C /repo worktree add -q --detach $WT HEAD || exit 1
RES="applies=no"
if git -C $WT apply $SRCDIR/patch.diff 2>/dev/null; then
  RES="applies=yes"
  T=$(cd $WT && PYTHONPATH=$WT/src /venv/bin/python -m pytest -q -p no:cacheprovider --timeout=900 2>&1 | grep -E "passed|failed|error" | tail -1)
  AMPY_SRC=$WT/src /venv/bin/python $SRCDIR/demo.py > $WT/demo_with.txt 2>&1; RW=$?
  AMPY_SRC=/repo/src /venv/bin/python $SRCDIR/demo.py > $WT/demo_without.txt 2>&1; RWO=$?
  RES="$RES tests=[$T] demo_with_patch_exit=$RW demo_without_patch_exit=$RWO"
  case "$T" in *"76 passed"*) TP=1;; *) TP=0;; esac
  if [ $TP = 1 ] && [ $RW = 1 ] && [ $RWO = 0 ]; then
    OUT=/verif/seeded/$ID-$KOUT
    mkdir -p $OUT && cp $SRCDIR/patch.diff $SRCDIR/demo.py $OUT/ && cp $SRCDIR/notes.txt $OUT/notes.txt 2>/dev/null
    tail -5 $WT/demo_with.txt > $OUT/demo_output_with_patch.txt
    python3 - "$ID" "$KOUT" "$T" <<'PY'
import json,sys,re,os
ID,K,T=sys.argv[1:4]
d='/verif/seeded/%s-%s'%(ID,K)
notes=open(d+'/notes.txt').read() if os.path.exists(d+'/notes.txt') else ''
json.dump({"property":ID,"breaks":"property %s; see notes.txt (written by the sub-agent that produced the change)"%ID,
 "needs_to_manifest":re.sub(r'\s+',' ',notes)[:600],
 "confirmed_by":"selftest/confirm_seeded.sh in a scratch worktree of /repo HEAD",
 "ran":{"git apply":"ok","test suite with patch":T,"demo.py with patch (AMPY_SRC=worktree)":"exit 1","demo.py without patch (AMPY_SRC=/repo/src)":"exit 0"},
 "detected_by":None},open(d+'/meta.json','w'),indent=1)
PY
    RES="$RES KEPT"
  else
    RES="$RES REJECTED"
  fi
fi
git -C /repo worktree remove --force $WT
echo "$ID/$K: $RES"
