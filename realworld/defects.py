"""Real-world demonstrations of the defects of the pinned tree (DESIGN.md section 5).

Each function runs the public API of the code under --src (default /repo/src) with the real
numpy/pandas/scikit-learn/statsmodels and returns (reproduced: bool, detail: str).
Usage:  .venv/bin/python realworld/defects.py [--src DIR] [D1 D2 ...]
Exit status 0 always; one line per defect: "<id> REPRODUCED|absent <detail>".
"""
import sys, warnings
warnings.simplefilter('ignore')
SRC = '/repo/src'
if '--src' in sys.argv:
    SRC = sys.argv[sys.argv.index('--src') + 1]
sys.path.insert(0, SRC)
import numpy as np, pandas as pd  # noqa: E402
import ampycloud  # noqa: E402
from ampycloud.errors import AmpycloudError  # noqa: E402
from ampycloud.utils import mocker  # noqa: E402


def mk(rows):
    df = pd.DataFrame(rows, columns=['ceilo', 'dt', 'height', 'type'])
    df['ceilo'] = df['ceilo'].astype(pd.StringDtype())
    df['dt'] = df['dt'].astype(float)
    df['height'] = df['height'].astype(float)
    df['type'] = df['type'].astype(int)
    return df


def D1():
    """C10: repeated index labels (pd.concat of per-ceilometer frames)."""
    a = mk([('a', -i*15., 4300.+i, 1) for i in range(40)])
    b = mk([('b', -i*15., 20000.+i, 1) for i in range(40)])
    cc = pd.concat([a, b])
    out = []
    for msa in (None, 10000):
        ref = ampycloud.run(cc.reset_index(drop=True), prms={'MSA': msa}).metar_msg()
        try:
            got = ampycloud.run(cc, prms={'MSA': msa}).metar_msg()
        except Exception as e:
            got = type(e).__name__
        out.append((msa, got, ref))
    bad = [o for o in out if o[1] != o[2]]
    return bool(bad), 'concat frame (msa, got, plain-index reference): %r' % (out,)


def D2():
    """C14: find_groups() after find_layers() mutates, then raises."""
    rng = np.random.default_rng(1)
    rows = [('a', -i*15., 2500.+rng.normal(0, 5), 1) for i in range(0, 60, 2)] + \
           [('a', -i*15., 2700.+rng.normal(0, 5), 1) for i in range(1, 60, 2)]
    ch = ampycloud.run(mk(rows))
    before = (ch.metar_msg(), ch.n_groups, ch.data['group_id'].tolist())
    try:
        ch.find_groups()
        refused = False
    except AmpycloudError:
        refused = True
    after = (ch.metar_msg(), ch.n_groups, ch.data['group_id'].tolist())
    return refused and before != after, \
        'refused=%s msg/n_groups before=%r after=%r' % (refused, before[:2], after[:2])


def D3():
    """C06 (groups): merged base recomputed without the exclusion filter."""
    rows = [('a', -30., 1000., 1), ('b', -20., 1100., 1), ('b', -10., 1300., 1)]
    ch = ampycloud.run(mk(rows), prms={'MAX_HITS_OKTA0': 0, 'BASE_LVL_HEIGHT_PERC': 0,
                                       'EXCLUDE_FOR_BASE_HEIGHT_CALC': ['a'],
                                       'SLICING_PRMS': {'distance_threshold': 0.01}})
    hb = ch.groups['height_base'].tolist()
    d = np.diff(hb)
    return bool(len(d) and (d < 250).any()), 'group bases %r msg %s' % (hb, ch.metar_msg('groups'))


def D4():
    """C06 (layers): mixture components' bases computed on row order instead of time order."""
    rng = np.random.default_rng(0)
    n, rows = 60, []
    for i in range(n):  # i = 0 is the most recent measurement; the two sub-layers converge
        rows.append(('a', -15.*i, 2000 + rng.normal(0, 10), 1))
        rows.append(('a', -15.*i, 2190 + (600-190)*(i/(n-1)) + rng.normal(0, 5), 2))
    df = mk(rows).sort_values('dt', ascending=False).reset_index(drop=True)
    ch = ampycloud.run(df, prms={'BASE_LVL_LOOKBACK_PERC': 20})
    g, bad = ch.groups, []
    for gi in range(len(g)):
        if g.at[gi, 'ncomp'] > 1:
            lay = ch.layers[ch.layers.cluster_id // 100 >= 1]
            d = np.diff(np.sort(lay.height_base.values))
            if len(lay) == g.at[gi, 'ncomp'] and np.any(d < 250 - 1e-9):
                bad.append(lay.height_base.values.tolist())
    return bool(bad), 'rows in descending time, look-back 20: msg %s, split-group layer bases %r' % (
        ch.metar_msg(), bad)


def D4_search():
    """C06 (layers): mixture components' bases computed on row order instead of time order."""
    rng = np.random.default_rng(3)
    worst = None
    for it in range(40):
        n = 60
        dts = -np.arange(n) * 15.0
        sep = float(rng.integers(260, 600))
        drift = float(rng.integers(-300, 300))
        rows = []
        for i in range(n):
            base = 2000 + drift * (i / n)
            rows.append(('a', dts[i], base + rng.normal(0, 15), 1))
            rows.append(('a', dts[i], base + sep + rng.normal(0, 15), 2))
        df = mk(rows).sort_values('dt', ascending=False).reset_index(drop=True)
        ch = ampycloud.run(df, prms={'BASE_LVL_LOOKBACK_PERC': 20})
        g = ch.groups
        for gi in range(len(g)):
            if g.at[gi, 'ncomp'] > 1:
                lay = ch.layers[ch.layers.cluster_id.isin([100+10*gi+k for k in range(3)])]
                if len(lay) == g.at[gi, 'ncomp']:
                    d = np.diff(np.sort(lay.height_base.values))
                    if np.any(d < 250 - 1e-9):
                        worst = (it, lay.height_base.values.tolist(), ch.metar_msg())
        if worst:
            break
    return worst is not None, 'descending rows, look-back 20: %r' % (worst,)


def D5():
    """C05: generated layer ids 100+10*ind+k collide with inherited group ids >= 100."""
    df = mocker.canonical_demo_data()
    span = float(df.height.max() - df.height.min())
    rng0 = max(span, 1000.)
    meas = df.groupby(['ceilo', 'dt'])['type'].max().reset_index()
    K, step, rows = 135, 1500., []
    for k in range(K):
        m = meas.iloc[k]
        rows.append((m['ceilo'], float(m['dt']), 10000.+step*k,
                     int(m['type'])+1 if m['type'] > 0 else 1))
    fill = pd.DataFrame(rows, columns=['ceilo', 'dt', 'height', 'type'])
    fill['ceilo'] = fill['ceilo'].astype(pd.StringDtype())
    big = pd.concat([df, fill]).reset_index(drop=True)
    key = big[big.type == 0][['ceilo', 'dt']].merge(fill[['ceilo', 'dt']], on=['ceilo', 'dt'])
    if len(key):
        big = big[~((big.type == 0) & big.set_index(['ceilo', 'dt']).index.isin(
            key.set_index(['ceilo', 'dt']).index))].reset_index(drop=True)
    R = 300000.
    thr = 0.2*rng0/R
    ch = ampycloud.run(big, prms={'SLICING_PRMS': {'distance_threshold': thr,
                                                   'dt_scale': 100000*R/rng0,
                                                   'height_scale_kwargs': {'min_range': R}}})
    d = ch.data
    bad = [(int(l), sorted(set(int(x) for x in d[d.layer_id == l].group_id)))
           for l in np.unique(d.layer_id[d.layer_id >= 0])
           if len(set(d[d.layer_id == l].group_id)) > 1]
    exp = int(sum(max(1, c) for c in ch.groups.ncomp))
    return bool(bad) or ch.n_layers != exp, \
        'slices %d groups %d layers %d expected %d; layers spanning >1 group: %r' % (
            ch.n_slices, ch.n_groups, ch.n_layers, exp, bad)


def D6():
    """C08: bundle left with a single one-hit slice -> sklearn ValueError out of run()."""
    rows = [('a', 0., 1400., 1), ('a', -1., 1400., 1), ('a', -450., 1500., 1), ('a', -900., 1450., 1)]
    rows += [('a', -899.+0.1*i, 2000.+40*i, 1) for i in range(1, 11)]
    try:
        ch = ampycloud.run(mk(rows), prms={'SLICING_PRMS': {'dt_scale': 10, 'distance_threshold': 1.5},
                                           'MAX_HITS_OKTA0': 0})
        return False, 'ok ' + ch.metar_msg()
    except AmpycloudError as e:
        return False, 'AmpycloudError ' + str(e)[:80]
    except Exception as e:
        return True, '%s: %s' % (type(e).__name__, str(e)[:100])


def D7():
    """C14: find_slices()/metarize('slices') after find_groups() resets slices.isolated to True."""
    df = mocker.canonical_demo_data()
    ref = ampycloud.run(df)
    out = []
    for name, op in (('find_slices', lambda c: c.find_slices()),
                     ('metarize(slices)', lambda c: c.metarize('slices'))):
        ch = ampycloud.run(df)
        op(ch)
        cols = [c for c in ch.slices.columns if not ch.slices[c].equals(ref.slices[c])]
        out.append((name, cols))
    return any(c for _, c in out), 'columns of the slices table that differ from the canonical run: %r' % (out,)


def D9():
    """C08: every hit cropped above MSA+buffer (only second-or-higher hits) -> ValueError out of run()."""
    df = mk([('a', -10., 9000., 2)])
    try:
        ch = ampycloud.run(df, prms={'MSA': 1000, 'MSA_HIT_BUFFER': 0})
        return False, 'ok ' + ch.metar_msg()
    except AmpycloudError as e:
        return False, 'AmpycloudError ' + str(e)[:80]
    except Exception as e:
        return True, '%s: %s' % (type(e).__name__, str(e)[:100])


ALL = {'D9': D9, 'D1': D1, 'D2': D2, 'D3': D3, 'D4': D4, 'D5': D5, 'D6': D6, 'D7': D7}
if __name__ == '__main__':
    want = [a for a in sys.argv[1:] if a in ALL] or list(ALL)
    for k in want:
        try:
            r, detail = ALL[k]()
        except Exception as e:  # a crash of the demonstration itself
            r, detail = None, 'demonstration crashed: %s: %s' % (type(e).__name__, str(e)[:200])
        print(k, 'REPRODUCED' if r else ('absent' if r is False else 'ERROR'), detail)
